"""E4 (part 1) -- scripted transport endpoints and deviation-bounded enumeration of their answers.

FragSocket: a fake socket whose every recv/send answer is an explorer choice:
  full (default) | 1 byte | half | all-but-one | socket.timeout | EAGAIN (read side) | EOF | hard error.
FakeOS: os.read/os.write with the same menu, for PipeStream.
Chooser + explore(): all executions with <= k non-default answers (deviations), each run to completion.
"""
import errno
import socket


class Chooser(object):
    def __init__(self, prefix=()):
        self.prefix = list(prefix)
        self.trace = []      # (n alternatives, chosen, tag)
        self.pos = 0

    def choose(self, n, tag=None):
        if self.pos < len(self.prefix):
            c = self.prefix[self.pos]
            if c >= n:
                raise RuntimeError("REPLAY-DIVERGENCE: choice %d of %d at %d (%r)" % (c, n, self.pos, tag))
        else:
            c = 0
        self.pos += 1
        self.trace.append((n, c, tag))
        return c


def explore(run, bound, max_execs=None, on_result=None):
    """run(chooser) -> observation.  Enumerates every choice vector with <= bound non-zero entries."""
    stack = [([], 0)]
    n = 0
    results = []
    capped = False
    while stack:
        prefix, dev = stack.pop()
        ch = Chooser(prefix)
        obs = run(ch)
        n += 1
        if on_result is not None:
            on_result(ch, obs)
        else:
            results.append(([c for _, c, _ in ch.trace], obs))
        if max_execs is not None and n >= max_execs:
            capped = bool(stack)
            break
        if dev < bound:
            choices = [c for _, c, _ in ch.trace]
            for i in range(len(prefix), len(ch.trace)):
                for alt in range(1, ch.trace[i][0]):
                    stack.append((choices[:i] + [alt], dev + 1))
    return n, results, capped


def part(n, mode):
    """how many of n bytes a short answer transfers"""
    if n <= 1:
        return n
    if mode == "one":
        return 1
    if mode == "half":
        return max(1, n // 2)
    if mode == "allbutone":
        return n - 1
    return n


READ_MENU = ("full", "one", "half", "allbutone", "timeout", "eagain")
WRITE_MENU = ("full", "one", "half", "allbutone", "eagain")     # eagain: non-blocking descriptor, buffer full


class Wire(object):
    """one-directional byte FIFO between a writer endpoint and a reader endpoint"""

    def __init__(self):
        self.data = bytearray()
        self.rpos = 0
        self.eof = False           # writer closed
        self.total_written = 0


class FragSocket(object):
    """socket stand-in.  rx/tx are Wire objects.  chooser decides the answer of every call; `cut` forces a failure:
    ('read', offset, kind) / ('write', offset, kind): once `offset` bytes have been transferred in that direction,
    the next call fails with kind in {'eof', errno name}."""

    def __init__(self, rx, tx, chooser=None, cut=None, read_menu=READ_MENU, write_menu=WRITE_MENU):
        self.rx, self.tx = rx, tx
        self.chooser = chooser
        self.cut = cut
        self.closed = False
        self.shut = False
        self.read_menu = read_menu
        self.write_menu = write_menu
        self.calls = []            # log of (op, requested, transferred | exception name)
        self.nread = 0
        self.nwritten = 0
        self.timeouts_in_a_row = 0

    # -- socket API used by SocketStream
    def fileno(self):
        if self.closed:
            raise OSError(errno.EBADF, "Bad file descriptor")
        return 7

    def shutdown(self, how):
        if self.closed:
            raise OSError(errno.EBADF, "Bad file descriptor")
        self.shut = True

    def close(self):
        self.closed = True
        if self.tx is not None:
            self.tx.eof = True

    def settimeout(self, t):
        pass

    def _fail(self, kind):
        if kind == "eof":
            return None
        code = getattr(errno, kind)
        return OSError(code, kind)

    def recv(self, n):
        if self.closed:
            raise OSError(errno.EBADF, "Bad file descriptor")
        avail = len(self.rx.data) - self.rx.rpos
        limit = None
        if self.cut is not None and self.cut[0] == "read":
            limit = self.cut[1] - self.nread
            if limit <= 0:
                ex = self._fail(self.cut[2])
                self.calls.append(("recv", n, self.cut[2]))
                if ex is None:
                    return b""
                raise ex
        mode = "full"
        if self.chooser is not None and avail > 0:
            menu = self.read_menu
            if self.timeouts_in_a_row >= 2:
                menu = [m for m in menu if m not in ("timeout", "eagain")]
            mode = menu[self.chooser.choose(len(menu), "recv")]
        if mode == "timeout":
            self.timeouts_in_a_row += 1
            self.calls.append(("recv", n, "timeout"))
            raise socket.timeout("timed out")
        if mode == "eagain":
            self.timeouts_in_a_row += 1
            self.calls.append(("recv", n, "EAGAIN"))
            raise OSError(errno.EAGAIN, "Resource temporarily unavailable")
        self.timeouts_in_a_row = 0
        if avail == 0:
            # nothing buffered: writer done -> EOF; (a blocking read on an open idle wire is not produced by the harness)
            self.calls.append(("recv", n, "eof"))
            return b""
        k = part(min(n, avail), mode)
        if limit is not None:
            k = min(k, limit)
        buf = bytes(self.rx.data[self.rx.rpos:self.rx.rpos + k])
        self.rx.rpos += k
        self.nread += k
        self.calls.append(("recv", n, k))
        return buf

    def send(self, data):
        if self.closed:
            raise OSError(errno.EBADF, "Bad file descriptor")
        n = len(data)
        limit = None
        if self.cut is not None and self.cut[0] == "write":
            limit = self.cut[1] - self.nwritten
            if limit <= 0:
                self.calls.append(("send", n, self.cut[2]))
                raise self._fail(self.cut[2] if self.cut[2] != "eof" else "EPIPE")
        mode = "full"
        if self.chooser is not None and n > 0:
            mode = self.write_menu[self.chooser.choose(len(self.write_menu), "send")]
        if mode == "eagain":
            self.calls.append(("send", n, "EAGAIN"))
            raise BlockingIOError(errno.EAGAIN, "Resource temporarily unavailable")
        k = part(n, mode)
        if limit is not None:
            k = min(k, limit)
        self.tx.data += bytes(data[:k])
        self.tx.total_written += k
        self.nwritten += k
        self.calls.append(("send", n, k))
        return k


class FakePoll(object):
    """stand-in for rpyc.lib.compat.poll on fake descriptors: whatever is asked about is ready at once"""

    def __init__(self):
        self.reg = {}

    def register(self, fd, mode):
        self.reg[fd] = mode

    modify = register

    def unregister(self, fd):
        self.reg.pop(fd, None)

    def poll(self, timeout=None):
        return list(self.reg.items())


class FakeFile(object):
    def __init__(self, fd):
        self.fd = fd
        self.closed = False

    def fileno(self):
        if self.closed:
            raise ValueError("I/O operation on closed file")
        return self.fd

    def flush(self):
        pass

    def close(self):
        self.closed = True


class FakeOS(object):
    """stand-in for the `os` module inside rpyc.core.stream: read/write on fake descriptors"""

    def __init__(self, real_os):
        self._real = real_os
        self.socks = {}     # fd -> FragSocket used as the byte mover

    def __getattr__(self, name):
        return getattr(self._real, name)

    def read(self, fd, n):
        s = self.socks[fd]
        try:
            return s.recv(n)
        except socket.timeout:
            # pipes have no timeouts: treat as a short read of one byte instead
            return s.recv(1)

    def write(self, fd, data):
        return self.socks[fd].send(data)
