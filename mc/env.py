"""Locates the rpyc tree under test and installs the simulation seams (module-global rebinding).

No source hooks in /repo are needed: rpyc looks these names up at call time.
"""
import os
import sys

REPO = os.environ.get("VERIF_REPO", "/repo")
VERIF = os.path.dirname(os.path.dirname(os.path.abspath(__file__)))

_installed = False


def import_rpyc():
    if REPO not in sys.path:
        sys.path.insert(0, REPO)
    for k in list(sys.modules):
        if k == "rpyc" or k.startswith("rpyc."):
            f = getattr(sys.modules[k], "__file__", "") or ""
            if f and not f.startswith(REPO):
                del sys.modules[k]
    import rpyc
    assert os.path.abspath(rpyc.__file__).startswith(os.path.abspath(REPO)), (rpyc.__file__, REPO)
    return rpyc


def install_sim():
    """rebind locks / conditions / clocks / thread creation to the sim kernel (idempotent)"""
    global _installed
    rpyc = import_rpyc()
    if _installed:
        return rpyc
    from mc import sched as S
    import rpyc.core.protocol as P
    import rpyc.core.async_ as A
    import rpyc.lib as L
    import rpyc.lib.colls as C
    import rpyc.utils.helpers as H
    P.Lock = S.SimLock
    P.Condition = S.SimCondition
    # any other primitive the module may import from threading (a change may introduce RLock, Event, ...)
    for nm, sim in (("RLock", S.SimRLock), ("Event", S.SimEvent), ("Thread", S.SimThread)):
        if hasattr(P, nm):
            setattr(P, nm, sim)
        if hasattr(C, nm):
            setattr(C, nm, sim)
    P.time = S.sim_time
    C.Lock = S.SimLock
    L.time = S.sim_time
    L.threading = S.sim_threading
    A.time = S.sim_time
    H.time = S.sim_time
    _installed = True
    return rpyc


def silence_unraisable():
    def hook(unraisable):
        pass
    sys.unraisablehook = hook
