"""E4 (part 2) -- SimOS: simulated sockets, poll and address space under the E1 scheduler.

Models, at the level rpyc uses them: loopback stream sockets (bind/listen/accept/connect/send/recv/shutdown/
close/settimeout/setblocking/getpeername/getsockname/fileno), UDP sockets (sendto/recvfrom), unix-path
addresses, a poll object with the rpyc.lib.compat.poll interface ('r','w','e','h','n' letters with Linux
semantics), lowest-free descriptor allocation, and sockets that close when finalised (as real sockets do).
Every call that touches shared kernel state is a scheduling point; blocking calls block in virtual time.
A per-socket `fault` hook and byte `cut`s inject failures.  Conformance against the real kernel is tested by
selftest/kernel_conformance.py.
"""
import errno
import socket as _real_socket
import select as _real_select

from mc import sched as S


class Kernel(object):
    """one per execution: descriptor table, bound addresses"""

    def __init__(self):
        self.fds = {}            # fd -> OpenFile
        self.bound = {}          # (family kind, addr) -> OpenFile (listening or datagram)
        self.next_port = 40000
        self.log = []
        self.created = 0

    def alloc_fd(self, of):
        fd = 3
        while fd in self.fds:
            fd += 1
        self.fds[fd] = of
        return fd

    def free_fd(self, fd):
        self.fds.pop(fd, None)

    def open_fds(self):
        return sorted(self.fds)


KERNEL = [None]


def kernel():
    k = KERNEL[0]
    if k is None:
        k = KERNEL[0] = Kernel()
    return k


def reset_kernel():
    KERNEL[0] = Kernel()
    return KERNEL[0]


def _point(kind, info=None):
    s = S.current_sched()
    if s is not None and s.io_points:
        s.point(kind, info)


class OpenFile(object):
    """open file description of a socket"""

    def __init__(self, family, type_):
        self.family = family
        self.type = type_
        self.rx = bytearray()          # stream: bytes; dgram: list in self.dgrams
        self.dgrams = []
        self.peer = None               # connected peer OpenFile
        self.listening = False
        self.backlog = []
        self.addr = None
        self.peer_addr = None
        self.rd_shut = False
        self.wr_shut = False
        self.peer_wr_closed = False    # peer sent FIN (closed or shut its write side)
        self.peer_gone = False         # peer fully closed
        self.reset = False             # pending ECONNRESET
        self.closed = False
        self.refs = 0
        self.sent_after_peer_gone = 0
        self.fault = None              # callable(of, op, arg) -> None | exception instance | 'eof'
        self.cut_read = None           # (offset, kind): after `offset` bytes read, reads fail
        self.cut_write = None
        self.nread = 0
        self.nwritten = 0
        self.capture = None            # bytearray collecting everything sent (fault-free reference runs)
        self.name = "?"

    def readable(self):
        if self.listening:
            return bool(self.backlog)
        if self.type == _real_socket.SOCK_DGRAM:
            return bool(self.dgrams)
        if self.cut_read is not None and self.nread >= self.cut_read[0]:
            return True
        return bool(self.rx) or self.peer_wr_closed or self.peer_gone or self.rd_shut or self.reset

    def _state(self):
        return ("OF", self.name, bytes(self.rx), len(self.dgrams), self.listening, len(self.backlog), self.rd_shut, self.wr_shut,
                self.peer_wr_closed, self.peer_gone, self.closed, self.refs)


def _err(code):
    return OSError(code, errno.errorcode.get(code, str(code)))


class SimSocket(object):
    def __init__(self, family=_real_socket.AF_INET, type=_real_socket.SOCK_STREAM, proto=0, _of=None):
        k = kernel()
        self._k = k
        self.family = family
        self.type = type
        self.proto = proto
        self._of = _of if _of is not None else OpenFile(family, type)
        self._of.refs += 1
        self._fd = k.alloc_fd(self._of)
        self._timeout = None
        self._closed = False
        k.created += 1
        self._serial = k.created        # deterministic identity (sets of sockets must iterate in a reproducible order)

    # ---- plumbing
    def __repr__(self):
        return "<SimSocket fd=%s %s>" % (self._fd if not self._closed else -1, self._of.name)

    def __hash__(self):
        return self._serial

    def __eq__(self, other):
        return self is other

    def __enter__(self):
        return self

    def __exit__(self, *a):
        self.close()

    def __del__(self):
        try:
            if not self._closed:
                self._close(from_del=True)
        except BaseException:   # noqa
            pass

    def _check(self):
        if self._closed:
            raise _err(errno.EBADF)

    def fileno(self):
        if self._closed:
            return -1
        return self._fd

    def settimeout(self, t):
        self._timeout = t

    def gettimeout(self):
        return self._timeout

    def setblocking(self, flag):
        self._timeout = None if flag else 0.0

    def setsockopt(self, *a):
        self._check()
        if len(a) == 3 and a[1] == _real_socket.SO_LINGER:
            import struct as _st
            try:
                on, secs = _st.unpack("ii", a[2])
            except Exception:
                on, secs = 0, 0
            self._linger0 = bool(on) and secs == 0

    def getsockopt(self, *a):
        return 0

    def _deadline(self):
        s = S.current_sched()
        if self._timeout is None or s is None:
            return None
        return s.clock + self._timeout

    def _fault(self, op, arg=None):
        f = self._of.fault
        if f is None:
            return None
        return f(self._of, op, arg)

    # ---- addressing
    def bind(self, addr):
        self._check()
        k = self._k
        of = self._of
        if self.family == _real_socket.AF_UNIX:
            key = ("unix", addr)
        else:
            host, port = addr[0], addr[1]
            if port == 0:
                port = k.next_port
                k.next_port += 1
            addr = (host or "0.0.0.0", port) + tuple(addr[2:])
            key = ("inet", self.type, port)
        if key in k.bound and not k.bound[key].closed:
            raise _err(errno.EADDRINUSE)
        k.bound[key] = of
        of.addr = addr
        of.bound_key = key
        of.name = "%s" % (addr,)

    def getsockname(self):
        self._check()
        if self._of.addr is None:
            return ("0.0.0.0", 0) if self.family != _real_socket.AF_UNIX else ""
        return self._of.addr

    def getpeername(self):
        self._check()
        if self._of.peer_addr is None or getattr(self._of, "aborted", False):
            raise _err(errno.ENOTCONN)     # also after the peer reset the connection (even while it sat in the backlog)
        return self._of.peer_addr

    def listen(self, backlog=128):
        self._check()
        self._of.listening = True

    def accept(self):
        self._check()
        deliver_signals()
        _point("sock.accept", self._of.name)
        self._check()
        of = self._of
        if not of.listening:
            raise _err(errno.EINVAL)
        s = S.current_sched()
        if not of.backlog:
            if self._timeout == 0.0 or s is None:
                raise _err(errno.EAGAIN)
            dl = self._deadline()
            me = current_proc()
            while True:
                # a signal interrupts the blocked call (EINTR); CPython runs the handler and retries (PEP 475)
                ok = s.block(lambda: bool(of.backlog) or of.closed or self._closed or bool(me.pending), dl, "sock.accept.wait", of.name)
                had = bool(me.pending)
                deliver_signals()
                if self._closed or of.closed:
                    raise _err(errno.EBADF)
                if of.backlog:
                    break
                if not ok or not had:
                    raise _real_socket.timeout("timed out")
        cof = of.backlog.pop(0)
        conn = SimSocket(self.family, self.type, self.proto, _of=cof)
        return conn, cof.peer_addr

    def connect(self, addr):
        self._check()
        _point("sock.connect", str(addr))
        k = self._k
        if self.family == _real_socket.AF_UNIX:
            key = ("unix", addr)
        else:
            key = ("inet", self.type, addr[1])
        lof = k.bound.get(key)
        if self.type == _real_socket.SOCK_DGRAM:
            self._of.peer_addr = addr
            return
        if lof is None or lof.closed or not lof.listening:
            raise _err(errno.ECONNREFUSED)
        mine = self._of
        if mine.addr is None:
            if self.family == _real_socket.AF_UNIX:
                mine.addr = ""
            else:
                mine.addr = ("127.0.0.1", k.next_port)
                k.next_port += 1
        srv = OpenFile(self.family, self.type)
        srv.addr = lof.addr
        srv.peer_addr = mine.addr
        srv.name = "srv<-%s" % (mine.addr,)
        mine.peer_addr = lof.addr
        mine.name = "cli:%s" % (mine.addr,)
        srv.peer, mine.peer = mine, srv
        lof.backlog.append(srv)
        # a connection sitting in the backlog holds a reference until accepted (or the listener closes)
        srv.refs += 0

    def connect_ex(self, addr):
        try:
            self.connect(addr)
            return 0
        except OSError as ex:
            return ex.errno

    # ---- stream I/O
    def send(self, data, flags=0):
        self._check()
        _point("sock.send", self._of.name)
        self._check()
        of = self._of
        f = self._fault("send", data)
        if f is not None:
            raise f if not isinstance(f, str) else _err(errno.EPIPE)
        if self.type == _real_socket.SOCK_DGRAM:
            return self.sendto(data, of.peer_addr)
        if of.peer is None:
            raise _err(errno.ENOTCONN if not of.wr_shut else errno.EPIPE)
        if of.wr_shut:
            raise _err(errno.EPIPE)
        if of.reset:
            of.reset = False
            raise _err(errno.ECONNRESET)
        n = len(data)
        if of.cut_write is not None:
            left = of.cut_write[0] - of.nwritten
            if left <= 0:
                raise _err(getattr(errno, of.cut_write[1]))
            n = min(n, left)
        p = of.peer
        if p.closed or p.rd_shut:
            # the peer is gone: the first send after that succeeds (bytes are dropped, the peer answers RST),
            # later sends fail with EPIPE
            of.sent_after_peer_gone += 1
            if of.sent_after_peer_gone > 1:
                raise _err(errno.EPIPE)
            of.nwritten += n
            return n
        p.rx += bytes(data[:n])
        of.nwritten += n
        if of.capture is not None:
            of.capture += bytes(data[:n])
        return n

    def sendall(self, data, flags=0):
        while data:
            n = self.send(data)
            data = data[n:]

    def recv(self, bufsize, flags=0):
        self._check()
        _point("sock.recv", self._of.name)
        self._check()
        of = self._of
        f = self._fault("recv", bufsize)
        if f is not None:
            if f == "eof":
                return b""
            raise f
        if self.type == _real_socket.SOCK_DGRAM:
            return self.recvfrom(bufsize)[0]
        if of.peer is None and not of.rd_shut:
            raise _err(errno.ENOTCONN)
        s = S.current_sched()
        if of.cut_read is not None and of.nread >= of.cut_read[0]:
            kind = of.cut_read[1]
            if kind == "eof":
                return b""
            raise _err(getattr(errno, kind))
        if not of.rx and not (of.peer_wr_closed or of.peer_gone or of.rd_shut or of.reset):
            if self._timeout == 0.0 or s is None:
                raise _err(errno.EAGAIN)
            # closing the descriptor from another thread does not wake a blocked recv (shutdown does: it changes the open file)
            ok = s.block(lambda: of.readable(), self._deadline(), "sock.recv.wait", of.name)
            if self._closed:
                raise _err(errno.EBADF)     # noticed only when the wait is over
            if not ok and not of.readable():
                raise _real_socket.timeout("timed out")
        if of.rx and not of.rd_shut:
            n = min(bufsize, len(of.rx))
            if of.cut_read is not None:
                n = min(n, of.cut_read[0] - of.nread)
            data = bytes(of.rx[:n])
            del of.rx[:n]
            of.nread += n
            return data
        if of.reset:
            of.reset = False
            raise _err(errno.ECONNRESET)
        return b""

    def shutdown(self, how):
        self._check()
        of = self._of
        if of.peer is None and not of.listening:
            raise _err(errno.ENOTCONN)
        if getattr(of, "aborted", False):
            raise _err(errno.ENOTCONN)      # the peer reset the connection: nothing left to shut down
        if of.listening:
            # Linux: shutdown on a listening socket wakes blocked accept()s
            of.closed_for_accept = True
            return
        if how in (_real_socket.SHUT_RD, _real_socket.SHUT_RDWR):
            of.rd_shut = True
        if how in (_real_socket.SHUT_WR, _real_socket.SHUT_RDWR):
            if not of.wr_shut:
                of.wr_shut = True
                if of.peer is not None:
                    of.peer.peer_wr_closed = True
        _point("sock.shutdown", of.name)

    def close(self):
        self._close()

    def _close(self, from_del=False):
        if self._closed:
            return
        self._closed = True
        of = self._of
        self._k.free_fd(self._fd)
        of.refs -= 1
        if of.refs > 0:
            return
        of.closed = True
        key = getattr(of, "bound_key", None)
        if key is not None and self._k.bound.get(key) is of:
            del self._k.bound[key]
        if of.listening:
            for c in of.backlog:
                if c.peer is not None:
                    c.peer.peer_gone = True
                    c.peer.peer_wr_closed = True
            del of.backlog[:]
        if of.peer is not None:
            p = of.peer
            if getattr(self, "_linger0", False) and not p.closed:
                p.reset = True         # abortive close (SO_LINGER 0): RST instead of FIN
                p.aborted = True
            if of.rx and not p.closed:
                p.reset = True         # closing with unread data resets the connection
            p.peer_wr_closed = True
            p.peer_gone = True
        if not from_del:
            _point("sock.close", of.name)

    def detach(self):
        fd = self._fd
        self._closed = True
        return fd

    # ---- datagrams
    def sendto(self, data, addr):
        self._check()
        _point("sock.sendto", str(addr))
        k = self._k
        of = self._of
        if of.addr is None:
            of.addr = ("127.0.0.1", k.next_port)
            k.next_port += 1
            of.bound_key = ("inet", self.type, of.addr[1])
            k.bound[of.bound_key] = of
        f = self._fault("sendto", data)
        if f is not None:
            raise f
        dst = k.bound.get(("inet", _real_socket.SOCK_DGRAM, addr[1]))
        if dst is not None and not dst.closed:
            dst.dgrams.append((bytes(data), of.addr))
        return len(data)

    def recvfrom(self, bufsize, flags=0):
        self._check()
        _point("sock.recvfrom", self._of.name)
        self._check()
        of = self._of
        f = self._fault("recvfrom", bufsize)
        if f is not None:
            raise f
        s = S.current_sched()
        if not of.dgrams:
            if self._timeout == 0.0 or s is None:
                raise _err(errno.EAGAIN)
            ok = s.block(lambda: bool(of.dgrams) or self._closed, self._deadline(), "sock.recvfrom.wait", of.name)
            if self._closed:
                raise _err(errno.EBADF)
            if not ok and not of.dgrams:
                raise _real_socket.timeout("timed out")
        data, src = of.dgrams.pop(0)
        return data[:bufsize], src


def socketpair():
    a = SimSocket()
    b = SimSocket()
    a._of.addr, b._of.addr = ("127.0.0.1", 1), ("127.0.0.1", 2)
    a._of.peer_addr, b._of.peer_addr = b._of.addr, a._of.addr
    a._of.peer, b._of.peer = b._of, a._of
    a._of.name, b._of.name = "A", "B"
    return a, b


class SimSocketModule(object):
    """stand-in for the `socket` module"""
    socket = SimSocket
    error = OSError
    timeout = _real_socket.timeout
    socketpair = staticmethod(socketpair)

    @staticmethod
    def getaddrinfo(host, port, family=0, type=0, proto=0, flags=0):
        fam = family or _real_socket.AF_INET
        typ = type or _real_socket.SOCK_STREAM
        host = host or ("0.0.0.0" if flags & _real_socket.AI_PASSIVE else "127.0.0.1")
        if host == "localhost":
            host = "127.0.0.1"
        addr = (host, int(port)) if fam != _real_socket.AF_INET6 else (host, int(port), 0, 0)
        return [(fam, typ, proto or 6, "", addr)]

    def __getattr__(self, name):
        return getattr(_real_socket, name)


sim_socket = SimSocketModule()


class SimPoll(object):
    """rpyc.lib.compat.poll interface over the simulated kernel"""

    def __init__(self):
        self.reg = {}

    def register(self, fd, mode):
        if not isinstance(fd, int):
            fd = fd.fileno()
        if fd < 0:
            raise ValueError("file descriptor cannot be a negative integer (%d)" % fd)
        self.reg[fd] = mode
    modify = register

    def unregister(self, fd):
        if not isinstance(fd, int):
            fd = fd.fileno()
        del self.reg[fd]

    def _scan(self, snapshot=None):
        k = kernel()
        out = []
        for fd, mode in sorted(self.reg.items()):
            # a poll that is already blocked holds on to the open files it started with: a descriptor closed meanwhile by
            # another thread neither wakes it nor shows up as invalid (only a poll that STARTS on a closed number says "n")
            of = k.fds.get(fd) if snapshot is None else snapshot.get(fd)
            if of is None:
                if snapshot is None:
                    out.append((fd, "n"))
                continue
            mask = ""
            if "r" in mode and of.readable():
                mask += "r"
            if "w" in mode and of.peer is not None and not of.wr_shut:
                mask += "w"
            if of.reset:
                mask += "e"
            if (of.rd_shut and of.wr_shut) or (of.peer_gone and of.wr_shut):
                mask += "h"
            if mask:
                out.append((fd, mask))
        return out

    def poll(self, timeout=None):
        _point("poll", tuple(sorted(self.reg)))
        ready = self._scan()
        if ready:
            return ready
        s = S.current_sched()
        if s is None or (timeout is not None and timeout <= 0):
            if s is not None:
                s.count_step()
            return []
        deadline = None if timeout is None else s.clock + timeout
        snap = dict((fd, kernel().fds.get(fd)) for fd in self.reg)
        s.block(lambda: bool(self._scan(snap)), deadline, "poll.wait", tuple(sorted(self.reg)))
        return self._scan()        # what is reported on return is today's view (a number closed meanwhile reads "n")


def install(modules=("stream", "server", "registry", "factory", "lib")):
    """rebind socket / poll in the rpyc modules that use them (idempotent)"""
    import rpyc.core.stream as st
    import rpyc.lib as lib
    if "stream" in modules:
        st.socket = sim_socket
        st.poll = SimPoll
    if "lib" in modules:
        lib.socket = sim_socket
    if "server" in modules:
        import rpyc.utils.server as sv
        sv.socket = sim_socket
        sv.poll = SimPoll
        sv.time = S.sim_time
        sv.Queue = _QueueModule()
    if "registry" in modules:
        import rpyc.utils.registry as rg
        rg.socket = sim_socket
        rg.time = S.sim_time
    if "factory" in modules:
        import rpyc.utils.factory as fa
        fa.socket = sim_socket


class _QueueModule(object):
    Queue = S.SimQueue

    def __getattr__(self, name):
        import queue
        return getattr(queue, name)


# ====================================================================== processes (fork emulation)
class ProcExit(BaseException):
    """os._exit() inside an emulated child process"""


class Proc(object):
    def __init__(self, pid, parent):
        self.pid = pid
        self.parent = parent
        self.children = []
        self.state = "running"      # running | zombie | reaped
        self.fds = []               # SimSocket objects this process inherited (closed at exit)
        self.handlers = {}          # signum -> handler
        self.pending = []           # pending signal numbers
        self.exit_code = None


class ProcTable(object):
    def __init__(self):
        self.next_pid = 100
        self.root = Proc(1, None)
        self.all = [self.root]

    def zombies(self):
        return [p.pid for p in self.all if p.state == "zombie"]

    def running_children(self, proc=None):
        proc = proc or self.root
        return [p.pid for p in proc.children if p.state == "running"]


PROCS = [None]


def procs():
    if PROCS[0] is None:
        PROCS[0] = ProcTable()
    return PROCS[0]


def reset_procs():
    PROCS[0] = ProcTable()
    return PROCS[0]


def current_proc():
    lt = S.current_lthread()
    p = getattr(lt, "proc", None) if lt is not None else None
    return p if p is not None else procs().root


def deliver_signals():
    """run pending signal handlers of the current process (called from the accept loop's system calls: CPython runs
    Python-level handlers in the main thread between bytecodes; PEP 475 then retries the interrupted call)"""
    p = current_proc()
    while p.pending:
        signum = p.pending.pop(0)
        h = p.handlers.get(signum)
        if callable(h):
            h(signum, None)


def _dup(sock):
    d = SimSocket(sock.family, sock.type, sock.proto, _of=sock._of)
    d._timeout = sock._timeout
    return d


class SimOSModule(object):
    """stand-in for the `os` module inside rpyc.utils.server: fork / waitpid / _exit / getpid emulated"""
    WNOHANG = 1

    def __getattr__(self, name):
        import os as _os
        return getattr(_os, name)

    def getpid(self):
        return current_proc().pid

    def fork(self):
        """emulates fork() for the one call shape rpyc uses: `pid = os.fork()` as the first statement of a method
        `_accept_method(self, sock)`.  The child is a new logical thread that re-enters the same method on a shallow
        copy of `self` whose sockets are duplicates (same open file descriptions, new descriptors), with fork()
        returning 0 there; os._exit() ends it and closes every descriptor it still holds."""
        import copy
        import sys as _sys
        lt = S.current_lthread()
        if getattr(lt, "fork_returns_zero", False):
            lt.fork_returns_zero = False
            return 0
        s = S.current_sched()
        parent = current_proc()
        frame = _sys._getframe(1)
        srv = frame.f_locals["self"]
        sock = frame.f_locals["sock"]
        method = frame.f_code.co_name
        tab = procs()
        child = Proc(tab.next_pid, parent)
        tab.next_pid += 1
        tab.all.append(child)
        parent.children.append(child)
        child.handlers = dict(parent.handlers)
        csrv = copy.copy(srv)
        mapping = {}
        csrv.listener = _dup(srv.listener)
        child.fds.append(csrv.listener)
        csrv.clients = set()
        for c in list(srv.clients) + [sock]:
            if c not in mapping and not c._closed:
                mapping[c] = _dup(c)
                child.fds.append(mapping[c])
        for c in srv.clients:
            if c in mapping:
                csrv.clients.add(mapping[c])
        csock = mapping.get(sock, sock)

        def child_main():
            me = S.current_lthread()
            me.proc = child
            me.fork_returns_zero = True
            try:
                getattr(type(srv), method)(csrv, csock)
            except ProcExit:
                pass
            finally:
                for f in child.fds:
                    try:
                        if not f._closed:
                            f._close(from_del=True)
                    except Exception:
                        pass
                child.state = "zombie"
                sig = getattr(_real_signal, "SIGCHLD", 17)
                if sig not in parent.pending:
                    parent.pending.append(sig)      # standard signals are not queued: several exits, one pending SIGCHLD

        t = s.spawn(child_main, "proc-%d" % child.pid)
        t.proc = child
        _point("fork", child.pid)
        return child.pid

    def _exit(self, code=0):
        p = current_proc()
        p.exit_code = code
        raise ProcExit()

    def waitpid(self, pid, options=0):
        p = current_proc()
        kids = [c for c in p.children if c.state != "reaped"]
        if not kids:
            raise _err(errno.ECHILD)
        for c in kids:
            if c.state == "zombie" and (pid in (-1, 0) or pid == c.pid):
                c.state = "reaped"
                return c.pid, (c.exit_code or 0) << 8
        if options & self.WNOHANG:
            return 0, 0
        s = S.current_sched()
        s.block(lambda: any(c.state == "zombie" for c in kids), None, "waitpid")
        return self.waitpid(pid, options)


import signal as _real_signal     # noqa: E402


class SimSignalModule(object):
    def __getattr__(self, name):
        return getattr(_real_signal, name)

    def __bool__(self):
        return True

    def signal(self, signum, handler):
        p = current_proc()
        old = p.handlers.get(signum, _real_signal.SIG_DFL)
        p.handlers[signum] = handler
        return old

    def siginterrupt(self, signum, flag):
        pass


sim_os = SimOSModule()
sim_signal = SimSignalModule()


def install_processes():
    import rpyc.utils.server as sv
    sv.os = sim_os
    sv.signal = sim_signal
