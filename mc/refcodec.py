"""E5 -- independent reference codec for the published rpyc 5.x wire format (DESIGN.md Appendix A).

Written from the format table, sharing no code with rpyc.core.brine / channel / consts.
"""
import struct
import zlib

# message kinds / labels / handlers: the published numbers
REQUEST, REPLY, EXCEPTION = 1, 2, 3
L_VALUE, L_TUPLE, L_LOCAL_REF, L_REMOTE_REF = 1, 2, 3, 4
H = dict(ping=1, close=2, getroot=3, getattr=4, delattr=5, setattr=6, call=7, callattr=8, repr=9, str=10,
         cmp=11, hash=12, dir=13, pickle=14, del_=15, inspect=16, buffiter=17, oldslicing=18, ctxexit=19,
         instancecheck=20)
EXC_STOP_ITERATION = 1
COMPRESSION_THRESHOLD = 3000
MAX_IO_CHUNK = 64000


class RefCodecError(Exception):
    pass


def _enc_bytes(b, out):
    n = len(b)
    if n == 0:
        out.append(b"\x01")
    elif n <= 4:
        out.append(bytes([0x09 + n]) + b)
    elif n < 256:
        out.append(b"\x0e" + bytes([n]) + b)
    else:
        out.append(b"\x0f" + struct.pack(">I", n) + b)


def _enc(v, out):
    t = type(v)
    if v is None:
        out.append(b"\x00")
    elif v is True:
        out.append(b"\x03")
    elif v is False:
        out.append(b"\x04")
    elif v is NotImplemented:
        out.append(b"\x05")
    elif v is Ellipsis:
        out.append(b"\x06")
    elif t is int:
        if -0x30 <= v < 0xa0:
            out.append(bytes([v + 0x50]))
        else:
            s = str(v).encode("ascii")
            if len(s) < 256:
                out.append(b"\x16" + bytes([len(s)]) + s)
            else:
                out.append(b"\x17" + struct.pack(">I", len(s)) + s)
    elif t is float:
        out.append(b"\x18" + struct.pack(">d", v))
    elif t is complex:
        out.append(b"\x1b" + struct.pack(">dd", v.real, v.imag))
    elif t is bytes:
        _enc_bytes(v, out)
    elif t is str:
        out.append(b"\x08")
        _enc_bytes(v.encode("utf-8"), out)
    elif t is tuple:
        n = len(v)
        if n == 0:
            out.append(b"\x02")
        elif n <= 4:
            out.append(bytes([0x0f + n]))
        elif n < 256:
            out.append(b"\x14" + bytes([n]))
        else:
            out.append(b"\x15" + struct.pack(">I", n))
        for x in v:
            _enc(x, out)
    elif t is slice:
        out.append(b"\x19")
        _enc((v.start, v.stop, v.step), out)
    elif t is frozenset:
        out.append(b"\x1a")
        _enc(tuple(v), out)
    else:
        raise RefCodecError("not encodable: %r" % (t,))


def encode(v):
    out = []
    _enc(v, out)
    return b"".join(out)


class _R(object):
    def __init__(self, data, errors="strict"):
        self.d = data
        self.i = 0
        self.errors = errors

    def take(self, n):
        if self.i + n > len(self.d):
            raise RefCodecError("truncated")
        b = self.d[self.i:self.i + n]
        self.i += n
        return b


def _dec(r):
    tag = r.take(1)[0]
    if 0x20 <= tag <= 0xef:
        return tag - 0x50
    if tag == 0x00:
        return None
    if tag == 0x01:
        return b""
    if tag == 0x02:
        return ()
    if tag == 0x03:
        return True
    if tag == 0x04:
        return False
    if tag == 0x05:
        return NotImplemented
    if tag == 0x06:
        return Ellipsis
    if tag == 0x08:
        b = _dec(r)
        if type(b) is not bytes:
            raise RefCodecError("text payload is not a byte string")
        return b.decode("utf-8", r.errors)
    if 0x0a <= tag <= 0x0d:
        return r.take(tag - 0x09)
    if tag == 0x0e:
        return r.take(r.take(1)[0])
    if tag == 0x0f:
        return r.take(struct.unpack(">I", r.take(4))[0])
    if 0x10 <= tag <= 0x13:
        return tuple(_dec(r) for _ in range(tag - 0x0f))
    if tag == 0x14:
        return tuple(_dec(r) for _ in range(r.take(1)[0]))
    if tag == 0x15:
        return tuple(_dec(r) for _ in range(struct.unpack(">I", r.take(4))[0]))
    if tag == 0x16:
        return int(r.take(r.take(1)[0]).decode("ascii"))
    if tag == 0x17:
        return int(r.take(struct.unpack(">I", r.take(4))[0]).decode("ascii"))
    if tag == 0x18:
        return struct.unpack(">d", r.take(8))[0]
    if tag == 0x19:
        a, b, c = _dec(r)
        return slice(a, b, c)
    if tag == 0x1a:
        return frozenset(_dec(r))
    if tag == 0x1b:
        re_, im = struct.unpack(">dd", r.take(16))
        return complex(re_, im)
    raise RefCodecError("unknown tag 0x%02x" % tag)


def decode(data, errors="strict"):
    """errors='surrogatepass' for ledgers that only need the message envelope of frames carrying such text"""
    r = _R(data, errors)
    return _dec(r)


def frame(payload, compress=False):
    """bytes of one packet carrying `payload` (compress = sender has compression enabled)"""
    flag = 0
    if compress and len(payload) > COMPRESSION_THRESHOLD:
        payload = zlib.compress(payload, 1)
        flag = 1
    return struct.pack(">IB", len(payload), flag) + payload + b"\n"


def unframe(buf):
    """(payload, rest) or None if buf does not yet hold a whole packet"""
    if len(buf) < 5:
        return None
    n, flag = struct.unpack(">IB", bytes(buf[:5]))
    if len(buf) < 5 + n + 1:
        return None
    payload = bytes(buf[5:5 + n])
    if bytes(buf[5 + n:5 + n + 1]) != b"\n":
        raise RefCodecError("missing packet trailer")
    if flag:
        payload = zlib.decompress(payload)
    return payload, buf[5 + n + 1:]


def message(kind, seq, args, compress=False):
    return frame(encode((kind, seq, args)), compress)


def box_value(v):
    return (L_VALUE, v)
