"""E5 -- the value grammar: atoms hitting every wire-form class boundary, composites, non-dumpables,
exact structural comparison, and the reference 'plain immutable' predicate written from the statement."""
import collections
import enum
import itertools
import struct
import sys
import types


def _f(bits):
    return struct.unpack(">d", struct.pack(">Q", bits))[0]


class StrSub(str):
    pass


class IntSub(int):
    pass


class FloatSub(float):
    pass


class BytesSub(bytes):
    pass


class TupleSub(tuple):
    pass


class FrozensetSub(frozenset):
    pass


class Color(enum.IntEnum):
    RED = 1


class Flag(enum.Enum):
    A = "a"


Point = collections.namedtuple("Point", "x y")


class Plain(object):
    pass


class Falsy(object):
    def __bool__(self):
        return False


class ZeroLen(object):
    def __len__(self):
        return 0


def _fn():
    return None


def int_atoms():
    out = [0, 1, -1, 2, 7, -0x31, -0x30, -0x2f, 0x9e, 0x9f, 0xa0, 0xa1, 255, 256, -256, 65535, 2 ** 31 - 1, 2 ** 31,
           -2 ** 31, 2 ** 32, 2 ** 63 - 1, 2 ** 63, -2 ** 63, 2 ** 64, -2 ** 64, 2 ** 64 + 1, 10 ** 20, -10 ** 20,
           10 ** 253, 10 ** 254, 10 ** 255 - 1, 10 ** 255, 10 ** 256 - 1, 10 ** 256, -10 ** 253, -10 ** 254, -(10 ** 254) - 1,
           -(10 ** 255 - 1), -10 ** 255, 10 ** 300, -10 ** 300, 10 ** 1000]
    return out


def float_atoms():
    return [0.0, -0.0, 1.0, -1.5, 1e-320, 5e-324, -5e-324, 1.7976931348623157e308, float("inf"), float("-inf"),
            _f(0x7ff8000000000000), _f(0x7ff8000000000001), _f(0xfff8000000000000), _f(0x7ff0000000000001), 3.141592653589793]


def complex_atoms():
    nan = _f(0x7ff8000000000000)
    return [0j, complex(-0.0, 0.0), complex(0.0, -0.0), complex(-0.0, -0.0), 1 + 2j, complex(nan, 1.0), complex(1.0, nan),
            complex(float("inf"), float("-inf")), complex(_f(0x7ff8000000000001), -0.0)]


def str_atoms(big=True):
    out = ["", "a", "ab", "abc", "abcd", "abcde", "\x00", "a\x00b", "é", "€", "\U0001f600", "é€\U0001f600",
           "x" * 254, "x" * 255, "x" * 256, "é" * 127, "é" * 128, "€" * 85, "€" * 86,
           "\ud800", "a\udfffb", "\udc80\udc81", "😀"]
    if big:
        out += ["y" * 65535, "y" * 65536, "\U0001f600" * 20000]
    return out


def bytes_atoms(big=True):
    out = [b"", b"a", b"ab", b"abc", b"abcd", b"abcde", b"\x00", b"\xff\xfe", bytes(range(256)), b"z" * 254, b"z" * 255,
           b"z" * 256, b"z" * 257]
    if big:
        out += [b"q" * 65535, b"q" * 65536, b"q" * 70000]
    return out


def singletons():
    return [None, True, False, NotImplemented, Ellipsis]


def atoms(big=True):
    return (singletons() + int_atoms() + float_atoms() + complex_atoms() + str_atoms(big) + bytes_atoms(big))


def reduced_atoms():
    return [None, True, 0, -0x31, 0xa0, 2 ** 64, -0.0, _f(0x7ff8000000000001), 1 + 2j, "", "a€", b"", b"abcde",
            NotImplemented, Ellipsis]


def tiny_atoms():
    return [None, False, 1, 2 ** 70, -0.0, "s", b"b"]


def composites(depth, base=None):
    """all tuples / frozensets / slices of arity 0..3 over `base`, nested to `depth`"""
    base = list(base if base is not None else reduced_atoms())
    level = list(base)
    allv = []
    for d in range(depth):
        new = []
        pool = level if d == 0 else (tiny_atoms() + new_prev)
        new.append(())
        new.append(frozenset())
        for x in pool:
            new.append((x,))
            try:
                new.append(frozenset([x]))
            except TypeError:
                pass
            new.append(slice(x, None, None))
        pairs = pool if len(pool) <= 24 else pool[:24]
        for x, y in itertools.product(pairs, repeat=2):
            new.append((x, y))
            new.append(slice(None, x, y))
        for x, y in itertools.combinations(pairs, 2):
            try:
                new.append(frozenset([x, y]))
            except TypeError:
                pass
        trip = pairs[:6]
        for x, y, z in itertools.product(trip, repeat=3):
            new.append((x, y, z))
            new.append(slice(x, y, z))
        new_prev = new[:40] if d > 0 else new[::max(1, len(new) // 40)]
        allv.extend(new)
        level = new
    return allv


def arity_values():
    """tuples / frozensets at every length class: 0..5, 255, 256, 257, 70000"""
    out = []
    for n in (0, 1, 2, 3, 4, 5, 6, 254, 255, 256, 257):
        out.append(tuple(range(n)))
        out.append(frozenset(range(n)))
        out.append(tuple("s%d" % i for i in range(n)))
    out.append(tuple([None] * 70000))
    out.append(tuple(((i,), frozenset([i]), slice(i, i + 1, None)) for i in range(5)))
    out.append((((((((1,),),),),),),))
    out.append(frozenset([frozenset([frozenset([1]), 2]), (3, frozenset())]))
    out.append(slice((1, 2), frozenset([3]), slice(1, 2, 3)))
    return out


def nondumpables():
    gen = (i for i in range(3))
    vals = [
        ("list", [1, 2]), ("dict", {"a": 1}), ("set", {1}), ("bytearray", bytearray(b"ab")), ("object", Plain()),
        ("function", _fn), ("lambda", lambda: 0), ("class", Plain), ("builtin-class", int), ("module", sys),
        ("intenum", Color.RED), ("enum", Flag.A), ("namedtuple", Point(1, 2)), ("strsub", StrSub("s")),
        ("intsub", IntSub(3)), ("floatsub", FloatSub(1.5)), ("bytessub", BytesSub(b"b")), ("tuplesub", TupleSub((1,))),
        ("frozensetsub", FrozensetSub([1])), ("tuple-with-list", (1, [2])), ("tuple-with-strsub", (StrSub("x"),)),
        ("frozenset-with-intsub", frozenset([IntSub(1)])), ("frozenset-with-namedtuple", frozenset([Point(1, 2)])),
        ("slice-with-list", slice([1], None, None)), ("slice-with-strsub", slice(None, StrSub("a"), None)),
        ("nested-tuple-with-dict", ((1, (2, {"k": 1})),)), ("generator", gen), ("range", range(3)),
        ("memoryview", memoryview(b"ab")), ("method", "x".upper), ("type-none", type(None)),
        ("exception", ValueError("x")), ("bool-in-tuple-with-object", (True, Plain())),
        ("mappingproxy", types.MappingProxyType({})), ("decimal-like-float-subclass-in-tuple", (FloatSub(2.0), 1)),
        # falsy objects (bool() of a proxy is forwarded to the owner)
        ("empty-list", []), ("empty-dict", {}), ("empty-set", set()), ("empty-bytearray", bytearray()), ("falsy-instance", Falsy()),
        ("zero-len-instance", ZeroLen()),
    ]
    return vals


# ------------------------------------------------------------------ exact comparison
def _bits(x):
    return struct.pack(">d", x)


def same(a, b):
    """type- and structure-identical; floats/complex compared by bits"""
    ta, tb = type(a), type(b)
    if ta is not tb:
        return False
    if ta is float:
        return _bits(a) == _bits(b)
    if ta is complex:
        return _bits(a.real) == _bits(b.real) and _bits(a.imag) == _bits(b.imag)
    if ta is tuple:
        return len(a) == len(b) and all(same(x, y) for x, y in zip(a, b))
    if ta is slice:
        return same(a.start, b.start) and same(a.stop, b.stop) and same(a.step, b.step)
    if ta is frozenset:
        if len(a) != len(b):
            return False
        ka = sorted(canon_repr(x) for x in a)
        kb = sorted(canon_repr(x) for x in b)
        return ka == kb
    if ta in (int, str, bytes, bool) or a is None or a is NotImplemented or a is Ellipsis:
        return a == b if ta is not str else (a == b and a.encode("utf-8", "surrogatepass") == b.encode("utf-8", "surrogatepass"))
    return False


def canon_repr(v):
    t = type(v)
    if t is float:
        return "f:" + _bits(v).hex()
    if t is complex:
        return "c:" + _bits(v.real).hex() + _bits(v.imag).hex()
    if t is tuple:
        return "t(" + ",".join(canon_repr(x) for x in v) + ")"
    if t is frozenset:
        return "fs(" + ",".join(sorted(canon_repr(x) for x in v)) + ")"
    if t is slice:
        return "sl(" + ",".join(canon_repr(x) for x in (v.start, v.stop, v.step)) + ")"
    if t is str:
        return "s:" + v.encode("utf-8", "surrogatepass").hex()
    if t is bytes:
        return "b:" + v.hex()
    return "%s:%r" % (t.__name__, v)


_PLAIN = (int, bool, float, complex, str, bytes, type(None), type(NotImplemented), type(Ellipsis))


def plain_immutable(v):
    """the statement's 'immutable plain value': exact types only"""
    t = type(v)
    if t in _PLAIN:
        return True
    if t is tuple or t is frozenset:
        return all(plain_immutable(x) for x in v)
    if t is slice:
        return plain_immutable(v.start) and plain_immutable(v.stop) and plain_immutable(v.step)
    return False


def short(v, n=60):
    r = repr(v)
    return r if len(r) <= n else r[:n] + "...(%d chars)" % len(r)
