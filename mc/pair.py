"""Two real Connections over an in-memory SimStream pair, run under the E1 scheduler.

run(main) executes `main(world)` as logical thread 0 on the deterministic default schedule
(threads switch only when they block: sync_points/io_points off), with optional actor threads:
the peer's serve_all() loop, or explicit actors that execute commands on request (delivery control).
"""
import gc
import sys

from mc import env
rpyc = env.install_sim()
from mc import sched as S, simnet                                   # noqa: E402
from rpyc.core.protocol import Connection                           # noqa: E402
from rpyc.core.channel import Channel                               # noqa: E402
from rpyc.core.service import VoidService                           # noqa: E402


class World(object):
    def __init__(self, cservice=VoidService, sservice=VoidService, cconfig=None, sconfig=None, compress=True,
                 connect_now=True):
        self.a, self.b = simnet.SimStream.pair("c", "s")
        self.cservice, self.sservice = cservice, sservice
        self.cconfig, self.sconfig = dict(cconfig or {}), dict(sconfig or {})
        self.compress = compress
        self.cconn = self.sconn = None
        self.threads = []
        if connect_now:
            self.connect()

    def connect(self):
        # plain construction does no I/O; services whose on_connect does I/O must be connected inside run()
        self.sconn = self.sservice._connect(Channel(self.b, self.compress), self.sconfig)
        self.cconn = self.cservice._connect(Channel(self.a, self.compress), self.cconfig)

    def spawn(self, fn, name, *args):
        s = S.current_sched()
        t = s.spawn(lambda: fn(*args), name)
        self.threads.append(t)
        return t

    def start_server(self):
        """the peer serves until its connection ends (what a server thread does)"""
        def loop():
            try:
                self.sconn.serve_all()
            except EOFError:
                pass
        return self.spawn(loop, "server")

    def start_client_server(self):
        def loop():
            try:
                self.cconn.serve_all()
            except EOFError:
                pass
        return self.spawn(loop, "client-srv")

    def shutdown(self):
        """outside the scheduler: release everything so finalizers have nothing left to do"""
        for c in (self.cconn, self.sconn):
            if c is None:
                continue
            try:
                c._closed = True
                c._cleanup()
            except Exception:
                pass


class Actor(object):
    """a logical thread that executes submitted thunks one at a time (delivery-controlled events)"""

    def __init__(self, name):
        self.name = name
        self.cmd = None
        self.busy = False
        self.result = None
        self.exc = None
        self.stop = False
        self.lt = None

    def loop(self):
        s = S.current_sched()
        while True:
            s.block(lambda: self.cmd is not None or self.stop, None, "actor.idle")
            if self.stop:
                return
            fn = self.cmd
            self.cmd = None
            self.busy = True
            self.result = self.exc = None
            try:
                self.result = fn()
            except S.SimAbort:
                raise
            except BaseException as ex:   # noqa
                self.exc = ex
            finally:
                self.busy = False
                fn = None

    def start(self):
        s = S.current_sched()
        self.lt = s.spawn(self.loop, self.name)
        return self

    def submit(self, fn):
        assert not self.busy and self.cmd is None
        self.cmd = fn
        self.busy = True

    def call(self, fn, timeout=None):
        """submit and wait until the actor has finished it (virtual time bound: timeout)"""
        s = S.current_sched()
        self.submit(fn)
        ok = s.block(lambda: not self.busy and self.cmd is None, None if timeout is None else s.clock + timeout,
                     "actor.call")
        if not ok:
            raise S.HarnessError("actor %s did not finish in %s virtual seconds" % (self.name, timeout))
        if self.exc is not None:
            e, self.exc = self.exc, None
            raise e
        r, self.result = self.result, None
        return r

    def blocked_in(self):
        return self.lt.block_kind if (self.lt is not None and self.lt.state == "blocked") else None


_counter = [0]


def run(main, choices=(), horizon=None, max_steps=400000, sync_points=False, io_points=False, world=None,
        gc_every=200):
    """run main() under a fresh scheduler; returns (sched, result, exception)"""
    gc.disable()
    box = {}

    def _main():
        try:
            box["result"] = main()
        except S.SimAbort:
            raise
        except BaseException as ex:   # noqa
            box["exc"] = ex

    sch = S.Scheduler(choices, sync_points=sync_points, io_points=io_points, horizon=horizon, max_steps=max_steps)
    sch.run(_main)
    if world is not None:
        world.shutdown()
    _counter[0] += 1
    if gc_every and _counter[0] % gc_every == 0:
        gc.collect()
    return sch, box.get("result"), box.get("exc")
