"""E1 -- in-memory duplex byte stream implementing rpyc.core.stream.Stream, under the sim scheduler.

Semantics mirror SocketStream as far as Connection/Channel can observe:
  * read(n) blocks until n bytes are available; peer closed with fewer bytes -> close + EOFError
  * write on a closed stream -> EOFError; write to a peer that closed -> close + EOFError
  * poll(timeout) -> True if data or EOF pending; on a closed stream raises EOFError (fileno())
  * close() marks this end closed and signals EOF to the peer.
Every operation is a scheduling point (when sync_points is on) so other threads can interleave.
A `log` records every write (used by frame-ledger oracles).
"""
from mc import sched as S

try:
    from rpyc.core.stream import Stream as _Base
except Exception:   # pragma: no cover
    _Base = object


class SimStream(_Base):
    __slots__ = ("name", "inbox", "peer", "_closed", "eof", "log", "MAX_IO_CHUNK", "fault", "nwrites",
                 "nreads", "npolls", "hold", "held", "idle_hook")

    def __init__(self, name, max_io_chunk=64000):
        self.name = name
        self.inbox = bytearray()
        self.peer = None
        self._closed = False
        self.eof = False
        self.log = []
        self.MAX_IO_CHUNK = max_io_chunk
        self.fault = None      # optional callable(stream, op, arg) -> None | 'eof' | exception instance
        self.nwrites = 0
        self.nreads = 0
        self.npolls = 0
        self.idle_hook = None  # no-scheduler mode: called when a poll would wait; returns True if it produced input
        self.hold = False      # when True, writes are parked in `held` until release()
        self.held = []

    @classmethod
    def pair(cls, a="c", b="s", **kw):
        x, y = cls(a, **kw), cls(b, **kw)
        x.peer, y.peer = y, x
        return x, y

    @property
    def closed(self):
        return self._closed

    def close(self):
        if not self._closed:
            self._closed = True
            if self.peer is not None:
                self.peer.eof = True

    def fileno(self):
        if self._closed:
            raise EOFError("stream has been closed")
        return 1000 + (hash(self.name) % 1000)

    def _fault(self, op, arg):
        if self.fault is None:
            return
        f = self.fault(self, op, arg)
        if f is None:
            return
        self.close()
        if f == "eof":
            raise EOFError("injected EOF at %s" % (op,))
        raise EOFError(f)

    def poll(self, timeout):
        s = S.current_sched()
        if self._closed:
            raise EOFError("stream has been closed")
        self.npolls += 1
        if s is not None:
            s.count_step()
        if s is not None and s.io_points:
            s.point("stream.poll", self.name)
        if self._closed:
            raise EOFError("stream has been closed")
        self._fault("poll", None)
        if self.inbox or self.eof:
            return True
        # timeout may be a number, None, or an rpyc.lib.Timeout
        tl = timeout.timeleft() if hasattr(timeout, "timeleft") else timeout
        if s is None:
            # no scheduler (single-threaded raw-peer harnesses): nobody else can act, so waiting just lets the
            # (fallback) virtual clock run out - a peer that never answers
            if self.idle_hook is not None and self.idle_hook(self):
                return bool(self.inbox) or self.eof
            if tl is None:
                raise S.HarnessError("SimStream.poll would block forever outside a scheduler")
            if tl > 0:
                S.sim_time.fallback += tl
            return False
        if tl is not None and tl <= 0:
            return False
        deadline = None if tl is None else s.clock + tl
        s.block(lambda: bool(self.inbox) or self.eof or self._closed, deadline, "stream.poll.wait", self.name)
        if self._closed:
            raise EOFError("stream has been closed")
        return bool(self.inbox) or self.eof

    def read(self, count):
        s = S.current_sched()
        if self._closed:
            raise EOFError("stream has been closed")
        self.nreads += 1
        self._fault("read", count)
        if len(self.inbox) < count and not self.eof:
            if s is None:
                raise S.HarnessError("SimStream.read would block outside a scheduler")
            s.block(lambda: len(self.inbox) >= count or self.eof or self._closed, None, "stream.read.wait", self.name)
        if self._closed:
            raise EOFError("stream has been closed")
        if len(self.inbox) < count:
            self.close()
            raise EOFError("connection closed by peer")
        data = bytes(self.inbox[:count])
        del self.inbox[:count]
        return data

    def write(self, data):
        s = S.current_sched()
        if self._closed:
            raise EOFError("stream has been closed")
        if s is not None and s.io_points:
            s.point("stream.write", self.name)
            if self._closed:
                raise EOFError("stream has been closed")
        self.nwrites += 1
        self._fault("write", data)
        if self.peer is None or self.peer._closed:
            self.close()
            raise EOFError("broken pipe")
        data = bytes(data)
        self.log.append(data)
        if self.hold:
            self.held.append(data)
        else:
            self.peer.inbox += data

    def release(self, n=None):
        """deliver parked writes (all, or the first n) to the peer"""
        k = len(self.held) if n is None else n
        for d in self.held[:k]:
            self.peer.inbox += d
        del self.held[:k]

    def _state(self):
        return ("SS", self.name, bytes(self.inbox), self._closed, self.eof, tuple(self.held))
