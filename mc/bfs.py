"""E3 -- replay-based explicit-state BFS over event histories.

A state is the event history that reaches it; expand(hist, ev) (run in a forked worker) rebuilds the
system from scratch on the real code, applies hist + [ev], and returns
    (key, enabled_events_of_new_state, violations, info)
key = canonical state (hashable) used for de-duplication; violations = [(signature, text)].
BFS is level-synchronous: every (state, event) pair of a level is one task; the master de-duplicates.
"""
import time

from mc import runner


class BFSResult(object):
    def __init__(self):
        self.states = 0
        self.transitions = 0
        self.depth = 0
        self.violations = []     # (sig, text, history)
        self.caps = []
        self.samples = []
        self.levels = []
        self.wall = 0.0
        self.terminal = 0

    def as_dict(self):
        return dict(states=self.states, transitions=self.transitions, depth=self.depth, caps_hit=self.caps,
                    levels=self.levels, wall_s=round(self.wall, 2), terminal_states=self.terminal)


def bfs(expand, initial_events, max_depth, init_key="<init>", procs=None, max_states=None, max_seconds=None,
        stop=None, chunksize=4):
    """expand(hist, ev) -> (key, enabled, violations, info).  initial_events: events enabled in the empty history.
    stop(sig) -> True ends the search at the end of the current level."""
    t0 = time.time()
    res = BFSResult()
    seen = {init_key}
    res.states = 1
    frontier = [((), list(initial_events))]
    depth = 0
    stopping = False
    while frontier and depth < max_depth and not stopping:
        depth += 1
        tasks = [(hist, ev) for hist, evs in frontier for ev in evs]
        if not tasks:
            break
        outs = runner.pmap(expand, tasks, procs=procs, chunksize=chunksize)
        nxt = []
        new_here = 0
        for (hist, ev), (key, enabled, viols, info) in zip(tasks, outs):
            res.transitions += 1
            h2 = hist + (ev,)
            for sig, text in viols:
                res.violations.append((sig, text, list(h2)))
                if stop is None or stop(sig):
                    stopping = True
            if key in seen:
                continue
            seen.add(key)
            new_here += 1
            if len(res.samples) < 4 and depth >= 2:
                res.samples.append({"history": list(h2), "info": info})
            if enabled:
                nxt.append((h2, list(enabled)))
            else:
                res.terminal += 1
        res.levels.append((depth, len(tasks), new_here))
        res.states = len(seen)
        res.depth = depth
        frontier = nxt
        if max_states is not None and res.states >= max_states:
            res.caps.append("max_states=%d" % max_states)
            break
        if max_seconds is not None and time.time() - t0 > max_seconds:
            res.caps.append("max_seconds=%s" % max_seconds)
            break
    if frontier and depth >= max_depth and any(evs for _, evs in frontier):
        res.caps.append("depth=%d (frontier of %d states not expanded)" % (max_depth, len(frontier)))
    res.wall = time.time() - t0
    return res
