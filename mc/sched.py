"""E1 -- the simulator kernel: controlled logical threads, virtual clock, sim primitives.

One Scheduler object owns one *execution*.  Logical threads are real threads gated by a private
semaphore each; exactly one of them (or the controller that called Scheduler.run) runs at a time.
A running thread reaches the scheduler only at *scheduling points*; there the scheduler computes the
enabled set and takes the next choice from the replayed prefix (default choice 0 = keep running the
current thread, else the lowest thread id).  The virtual clock advances only when no thread is
enabled (to the earliest deadline); no enabled thread and no deadline is a deadlock.
"""
import sys
import threading as _real_threading
import _thread

_tls = _real_threading.local()


class SimAbort(BaseException):
    """raised inside every blocked/running logical thread when an execution is torn down"""


class ReplayDivergence(Exception):
    """a replayed prefix asked for a choice the execution does not offer: harness nondeterminism"""


class HarnessError(Exception):
    pass


def current_sched():
    return getattr(_tls, "sched", None)


def current_lthread():
    return getattr(_tls, "lthread", None)


class Point(object):
    __slots__ = ("kind", "n", "chosen", "tids", "cur_enabled", "info", "key", "cost_before", "costs")

    def __init__(self, kind, n, chosen, tids, cur_enabled, info, key, cost_before, costs=None):
        self.costs = costs
        self.kind = kind
        self.n = n
        self.chosen = chosen
        self.tids = tids
        self.cur_enabled = cur_enabled
        self.info = info
        self.key = key
        self.cost_before = cost_before

    def as_json(self):
        return {"kind": self.kind, "n": self.n, "chosen": self.chosen, "tids": list(self.tids),
                "info": repr(self.info)[:80]}


class LThread(object):
    def __init__(self, sched, tid, fn, name, daemon=True):
        self.sched = sched
        self.id = tid
        self.fn = fn
        self.name = name
        self.daemon = daemon
        self.state = "ready"      # ready | blocked | done
        self.pred = None
        self.deadline = None
        self.timed_out = False
        self.block_kind = None
        self.block_step = -1
        self.last_point = None
        self.sem = _real_threading.Semaphore(0)
        self.real = None
        self.exc = None
        self.result = None
        self.frame = None         # top frame at the last yield (for state keys)
        self.in_sched = False     # re-entrancy guard for line callbacks
        self.free = False         # environment thread: switching to/from it is never a preemption
        self.only_at = None       # env thread: point kinds at which it may be scheduled while local threads are enabled

    def __repr__(self):
        return "<LThread %d %s %s>" % (self.id, self.name, self.state)


class Scheduler(object):
    """One execution.  choices: replayed prefix (list of ints)."""

    def __init__(self, choices=(), max_steps=200000, horizon=None, state_fn=None, cut_fn=None,
                 sync_points=True, record_info=False, io_points=True):
        self.prefix = list(choices)
        self.pos = 0
        self.points = []           # Point objects (only real choice points, n > 1)
        self.threads = []
        self.current = None
        self.clock = 0.0
        self.steps = 0
        self.max_steps = max_steps
        self.horizon = horizon
        self.aborting = False
        self.outcome = None        # 'done' | 'deadlock' | 'steps' | 'horizon' | 'cut' | 'error'
        self.deadlock_info = None
        self.state_fn = state_fn   # callable(sched) -> hashable key, evaluated at choice points
        self.cut_fn = cut_fn       # callable(key, cost, index) -> True to cut the execution here
        self.sync_points = sync_points
        self.io_points = io_points
        self.record_info = record_info
        # exploration window: while False every choice takes the default and is not recorded (the driver sets it
        # around the part of a scenario whose schedules are to be enumerated; set-up and tear-down run one way)
        self.armed = True
        self.cost = 0              # preemptions so far
        self.last_local = None     # last non-free thread that ran
        self.clock_log = []        # (step, old, new) clock advances
        self.on_clock_advance = None
        self._ctl = _real_threading.Semaphore(0)
        self.errors = []
        self.trace = []            # optional compact trace of (tid, kind, info)
        self.keep_trace = False

    # ------------------------------------------------------------------ thread management
    def spawn(self, fn, name=None, daemon=True, free=False, only_at=None):
        tid = len(self.threads)
        t = LThread(self, tid, fn, name or "t%d" % tid, daemon)
        t.free = free
        t.only_at = only_at
        t.proc = getattr(_tls, "lthread", None) and getattr(_tls.lthread, "proc", None)   # process context is inherited
        self.threads.append(t)
        t.real = _real_threading.Thread(target=self._bootstrap, args=(t,), name="L-" + t.name)
        t.real.daemon = True
        t.real.start()
        return t

    def _bootstrap(self, t):
        t.sem.acquire()
        _tls.sched = self
        _tls.lthread = t
        try:
            if self.aborting:
                raise SimAbort()
            t.result = t.fn()
        except SimAbort:
            pass
        except BaseException as ex:   # noqa
            # like threading's excepthook: report and let go.  Keeping the traceback would keep the thread's frames - and
            # whatever their locals own (sockets!) - alive, which no real thread does
            import traceback as _tb
            t.exc_text = _tb.format_exc()
            e = ex
            while e is not None:
                e.__traceback__ = None
                e = e.__cause__ or e.__context__
            t.exc = ex
            t.exc_info = None
        finally:
            # dropping our reference to the thread's last frame may run finalizers (proxy release notices ...) that
            # reach scheduling points: that must happen while the thread still counts as running
            try:
                t.frame = None
            except BaseException:    # noqa
                pass
            t.state = "done"
            _tls.sched = None
            _tls.lthread = None
            try:
                self._thread_exit(t)
            except SimAbort:
                pass

    def _thread_exit(self, t):
        if self.aborting:
            self._ctl.release()
            return
        if t.id == 0:
            self._finish("done")
            return
        self._switch(t, "exit", None)

    # ------------------------------------------------------------------ running
    def run(self, main, join_timeout=20.0):
        """run `main` as logical thread 0 until it returns (or deadlock/cap); then tear down."""
        assert not self.threads
        t0 = self.spawn(main, "main", daemon=False)
        self.current = t0
        t0.sem.release()
        self._ctl.acquire()
        # teardown: every thread that is not done gets SimAbort at its blocking point
        self.aborting = True
        for t in self.threads:
            if t.state != "done":
                t.sem.release()
                if not self._ctl.acquire(timeout=join_timeout):
                    self.errors.append("thread %r did not stop on abort" % (t,))
        for t in self.threads:
            t.real.join(join_timeout)
            if t.real.is_alive():
                self.errors.append("thread %r still alive after teardown" % (t,))
        return self.outcome

    def _finish(self, outcome):
        if self.outcome is None:
            self.outcome = outcome
        if self.aborting:
            return
        self.aborting = True
        self._ctl.release()

    # ------------------------------------------------------------------ choice plumbing
    def _take_choice(self, kind, n, tids, cur_enabled, info, costs=None):
        key = None
        if self.state_fn is not None and self.pos >= len(self.prefix):
            try:
                key = self.state_fn(self)
            except Exception as ex:     # noqa
                # a failing state function must end the run (as a harness error), never leave the threads parked
                self.errors.append("STATE-KEY: %r" % (ex,))
                if self.outcome is None:
                    self.outcome = "harness-error"
                return None
        idx = len(self.points)
        if self.pos < len(self.prefix):
            c = self.prefix[self.pos]
            if not (0 <= c < n):
                self.outcome = "divergence"
                self.errors.append("REPLAY-DIVERGENCE: choice %d of %d at point %d (%s)" % (c, n, idx, kind))
                return None
        else:
            if self.cut_fn is not None and self.cut_fn(key, self.cost, idx):
                self.points.append(Point(kind, n, -1, tids, cur_enabled,
                                         info if self.record_info else None, key, self.cost, costs))
                return None
            c = 0
        self.pos += 1
        self.points.append(Point(kind, n, c, tids, cur_enabled,
                                 info if self.record_info else None, key, self.cost, costs))
        return c

    def choose(self, n, kind="env", info=None):
        """environment choice among n alternatives (no preemption cost). Called by a logical thread."""
        if n <= 1 or not self.armed:
            return 0
        me = _tls.lthread
        me.in_sched = True
        try:
            if self.aborting:
                raise SimAbort()
            me.frame = sys._getframe(1)
            c = self._take_choice(kind, n, (), False, info)
            if c is None:
                self._finish("cut")
                me.sem.acquire()
                raise SimAbort()
            return c
        finally:
            me.in_sched = False

    # ------------------------------------------------------------------ the scheduler proper
    def point(self, kind="yield", info=None):
        me = _tls.lthread
        if me is None or me.sched is not self:
            return
        if me.in_sched:
            return
        if me.only_at is not None:
            # a restricted environment thread runs each of its steps atomically (between two blocking waits)
            if self.aborting:
                raise SimAbort()
            return
        me.in_sched = True
        try:
            me.frame = sys._getframe(1)
            me.last_point = (kind, info)
            self._switch(me, kind, info)
        finally:
            me.in_sched = False

    def count_step(self):
        """called from operations that return without blocking or yielding (e.g. a zero-timeout poll), so that a
        spin loop still hits the step cap instead of running forever ("make waiting visible")"""
        me = _tls.lthread
        if me is None or me.sched is not self:
            return
        if self.aborting:
            raise SimAbort()
        self.steps += 1
        if self.steps > self.max_steps:
            self._finish("steps")
            me.sem.acquire()
            raise SimAbort()

    def block(self, pred, deadline=None, kind="block", info=None):
        """block the calling logical thread until pred() holds or the virtual deadline passes.
        returns True if pred held, False on timeout."""
        me = _tls.lthread
        if me is None or me.sched is not self:
            raise HarnessError("block() outside a logical thread")
        was = me.in_sched
        me.in_sched = True
        try:
            me.frame = sys._getframe(1)
            me.state = "blocked"
            me.pred = pred
            me.deadline = deadline
            me.timed_out = False
            me.block_kind = kind
            me.block_step = self.steps
            me.last_point = (kind, info)
            self._switch(me, kind, info)
            # when this thread last came back from a wait of this kind (monitors ask "was it woken since it last looked?")
            wk = getattr(me, "wakes", None)
            if wk is None:
                wk = me.wakes = {}
            wk[kind] = self.steps
            return not me.timed_out
        finally:
            me.in_sched = was

    def _enabled(self, kind=None):
        out = []
        restricted = False
        for t in self.threads:
            if t.state == "ready":
                out.append(t)
            elif t.state == "blocked":
                if t.pred():
                    out.append(t)
                elif t.deadline is not None and t.deadline <= self.clock:
                    out.append(t)
                else:
                    continue
            else:
                continue
            if t.only_at is not None:
                restricted = True
        if restricted:
            # partial-order reduction for environment threads: their steps commute with every local step
            # except the ones named in only_at, so they are offered only there (or when nothing else can run)
            if any(t.only_at is None for t in out):
                out = [t for t in out if t.only_at is None or t.state != "blocked" or kind in t.only_at]
        return out

    def _switch(self, me, kind, info):
        if self.aborting:
            if me.state != "done":
                raise SimAbort()
            self._ctl.release()
            return
        self.steps += 1
        if self.current is not me:
            # somebody runs without holding the baton (e.g. a finalizer executed on a foreign thread): a harness bug
            self.errors.append("BATON: %s (%s) entered the scheduler at step %d while %s holds the baton" % (
                me.name, kind, self.steps, self.current.name if self.current else None))
        if self.steps > self.max_steps:
            self._finish("steps")
            if me.state != "done":
                me.sem.acquire()
                raise SimAbort()
            return
        while True:
            enabled = self._enabled(kind)
            if enabled:
                break
            dls = [t.deadline for t in self.threads if t.state == "blocked" and t.deadline is not None]
            if not dls:
                self.deadlock_info = [(t.id, t.name, t.block_kind) for t in self.threads if t.state == "blocked"]
                self._finish("deadlock")
                if me.state != "done":
                    me.sem.acquire()
                    raise SimAbort()
                return
            new = min(dls)
            if self.horizon is not None and new > self.horizon:
                self._finish("horizon")
                if me.state != "done":
                    me.sem.acquire()
                    raise SimAbort()
                return
            old = self.clock
            self.clock = new
            self.clock_log.append((self.steps, old, new))
            if self.on_clock_advance is not None:
                self.on_clock_advance(self, old, new)
        if not me.free:
            self.last_local = me
        ref = self.last_local if me.free else me
        cur_enabled = ref is not None and ref in enabled
        if cur_enabled:
            enabled.remove(ref)
            enabled.insert(0, ref)
        if len(enabled) > 1 and self.armed:
            costs = tuple((1 if (cur_enabled and i != 0 and not t.free) else 0) for i, t in enumerate(enabled))
            c = self._take_choice(kind, len(enabled), tuple(t.id for t in enabled), cur_enabled, info, costs)
            if c is None:
                self._finish("cut")
                if me.state != "done":
                    me.sem.acquire()
                    raise SimAbort()
                return
            self.cost += costs[c]
        else:
            c = 0
        nxt = enabled[c]
        if self.keep_trace:
            self.trace.append((me.id, kind, info, nxt.id))
        if nxt.state == "blocked":
            nxt.timed_out = not nxt.pred()
            nxt.state = "ready"
            nxt.pred = None
            nxt.deadline = None
        if nxt is me:
            return
        self.current = nxt
        nxt.sem.release()
        if me.state == "done":
            return
        me.sem.acquire()
        if self.aborting:
            raise SimAbort()


# ====================================================================== sim primitives
def _sched_me():
    return getattr(_tls, "sched", None), getattr(_tls, "lthread", None)


class SimLock(object):
    """threading.Lock replacement.  Works uncontended without a scheduler (setup code)."""
    _ids = 0

    def __init__(self):
        self.owner = None

    def acquire(self, blocking=True, timeout=-1):
        s, me = _sched_me()
        if s is None:
            if self.owner is not None:
                raise HarnessError("contended SimLock outside a scheduler")
            self.owner = "<nosched>"
            return True
        if s.sync_points:
            s.point("lock.acquire")
        elif s.aborting:
            raise SimAbort()
        if self.owner is None:
            self.owner = me
            return True
        if not blocking:
            return False
        deadline = None
        if timeout is not None and timeout >= 0:
            deadline = s.clock + timeout
        ok = s.block(lambda: self.owner is None, deadline, "lock.wait")
        if ok:
            self.owner = me
            return True
        return False

    def release(self):
        if self.owner is None:
            raise RuntimeError("release unlocked lock")
        self.owner = None
        s, me = _sched_me()
        if s is not None and s.sync_points:
            s.point("lock.release")

    def locked(self):
        return self.owner is not None

    __enter__ = acquire

    def __exit__(self, *a):
        self.release()

    def _state(self):
        o = self.owner
        return ("L", o.id if isinstance(o, LThread) else (None if o is None else -1))


class SimRLock(object):
    def __init__(self):
        self.owner = None
        self.count = 0

    def acquire(self, blocking=True, timeout=-1):
        s, me = _sched_me()
        if s is None:
            me = "<nosched>"
            if self.owner not in (None, me):
                raise HarnessError("contended SimRLock outside a scheduler")
            self.owner = me
            self.count += 1
            return True
        if self.owner is me:
            self.count += 1
            return True
        if s.sync_points:
            s.point("rlock.acquire")
        elif s.aborting:
            raise SimAbort()
        if self.owner is None:
            self.owner = me
            self.count = 1
            return True
        if not blocking:
            return False
        deadline = None
        if timeout is not None and timeout >= 0:
            deadline = s.clock + timeout
        ok = s.block(lambda: self.owner is None, deadline, "rlock.wait")
        if ok:
            self.owner = me
            self.count = 1
            return True
        return False

    def release(self):
        s, me = _sched_me()
        if self.owner is None:
            raise RuntimeError("cannot release un-acquired lock")
        self.count -= 1
        if self.count == 0:
            self.owner = None
            if s is not None and s.sync_points:
                s.point("rlock.release")

    __enter__ = acquire

    def __exit__(self, *a):
        self.release()

    def _is_owned(self):
        s, me = _sched_me()
        return self.owner is (me if s is not None else "<nosched>")

    def _state(self):
        o = self.owner
        return ("RL", o.id if isinstance(o, LThread) else (None if o is None else -1), self.count)


class _Waiter(object):
    __slots__ = ("notified", "tid")

    def __init__(self, tid):
        self.notified = False
        self.tid = tid


class SimCondition(object):
    def __init__(self, lock=None):
        self._lock = lock if lock is not None else SimRLock()
        self.waiters = []
        self.acquire = self._lock.acquire
        self.release = self._lock.release

    def __enter__(self):
        return self._lock.__enter__()

    def __exit__(self, *a):
        return self._lock.__exit__(*a)

    def wait(self, timeout=None):
        s, me = _sched_me()
        if s is None:
            raise HarnessError("Condition.wait outside a scheduler")
        lk = self._lock
        if lk.owner is not me:
            raise RuntimeError("cannot wait on un-acquired lock")
        w = _Waiter(me.id)
        self.waiters.append(w)
        # release fully
        saved = getattr(lk, "count", 1)
        lk.owner = None
        if hasattr(lk, "count"):
            lk.count = 0
        deadline = None
        if timeout is not None:
            deadline = s.clock + max(0, timeout)
        try:
            s.block(lambda: w.notified, deadline, "cond.wait")
        finally:
            if w in self.waiters:
                self.waiters.remove(w)
            # re-acquire
            if not s.aborting:
                if lk.owner is not None:
                    s.block(lambda: lk.owner is None, None, "cond.reacquire")
                lk.owner = me
                if hasattr(lk, "count"):
                    lk.count = saved
        return w.notified

    def wait_for(self, predicate, timeout=None):
        s, me = _sched_me()
        end = None if timeout is None else s.clock + timeout
        r = predicate()
        while not r:
            if end is not None:
                left = end - s.clock
                if left <= 0:
                    break
                self.wait(left)
            else:
                self.wait(None)
            r = predicate()
        return r

    def notify(self, n=1):
        s, me = _sched_me()
        lk = self._lock
        if s is not None and lk.owner is not me:
            raise RuntimeError("cannot notify on un-acquired lock")
        for w in self.waiters[:n]:
            w.notified = True
        del self.waiters[:n]

    def notify_all(self):
        self.notify(len(self.waiters))

    notifyAll = notify_all

    def _state(self):
        return ("C", self._lock._state(), tuple((w.tid, w.notified) for w in self.waiters))


class SimEvent(object):
    def __init__(self):
        self.flag = False

    def is_set(self):
        return self.flag

    isSet = is_set

    def set(self):
        self.flag = True
        s, me = _sched_me()
        if s is not None and s.sync_points:
            s.point("event.set")

    def clear(self):
        self.flag = False

    def wait(self, timeout=None):
        s, me = _sched_me()
        if self.flag:
            return True
        if s is None:
            raise HarnessError("Event.wait outside a scheduler")
        deadline = None if timeout is None else s.clock + timeout
        s.block(lambda: self.flag, deadline, "event.wait")
        return self.flag

    def _state(self):
        return ("E", self.flag)


class SimThread(object):
    """threading.Thread replacement (the subset rpyc uses)"""

    def __init__(self, group=None, target=None, name=None, args=(), kwargs=None, daemon=None):
        self._target = target
        self._args = args
        self._kwargs = kwargs or {}
        self.name = name or "SimThread"
        self.daemon = bool(daemon)
        self._lt = None

    def run(self):
        try:
            if self._target is not None:
                self._target(*self._args, **self._kwargs)
        finally:
            # as threading.Thread.run does: a finished thread does not keep its target and arguments alive
            self._target = None
            self._args = ()
            self._kwargs = {}

    def start(self):
        s, me = _sched_me()
        if s is None:
            raise HarnessError("SimThread.start outside a scheduler")
        self._lt = s.spawn(self._run_wrapper, self.name, self.daemon)
        self._lt.sim_thread = self
        if s.sync_points:
            s.point("thread.start")

    def _run_wrapper(self):
        self.run()

    def join(self, timeout=None):
        s, me = _sched_me()
        lt = self._lt
        if lt is None:
            raise RuntimeError("cannot join thread before it is started")
        if lt.state == "done":
            return
        deadline = None if timeout is None else s.clock + timeout
        s.block(lambda: lt.state == "done", deadline, "thread.join")

    def is_alive(self):
        return self._lt is not None and self._lt.state != "done"

    isAlive = is_alive

    def setName(self, n):
        self.name = n
        if self._lt is not None:
            self._lt.name = n

    def getName(self):
        return self.name

    def setDaemon(self, d):
        self.daemon = d

    @property
    def ident(self):
        return None if self._lt is None else self._lt.id


class SimThreadingModule(object):
    """stand-in for the `threading` module (bound to rpyc.lib.threading etc.)"""
    Thread = SimThread
    Lock = SimLock
    RLock = SimRLock
    Condition = SimCondition
    Event = SimEvent

    @staticmethod
    def current_thread():
        lt = current_lthread()
        return getattr(lt, "sim_thread", lt)

    currentThread = current_thread

    @staticmethod
    def get_ident():
        lt = current_lthread()
        return -1 if lt is None else lt.id

    def __getattr__(self, name):
        return getattr(_real_threading, name)


class SimTimeModule(object):
    """stand-in for the `time` module"""

    def __init__(self):
        self.fallback = 0.0

    def time(self):
        s = current_sched()
        if s is None:
            return self.fallback
        return s.clock

    monotonic = time
    perf_counter = time

    def sleep(self, dt):
        s, me = _sched_me()
        if s is None:
            self.fallback += max(0, dt)
            return
        s.block(lambda: False, s.clock + max(0, dt), "sleep")

    def __getattr__(self, name):
        import time as _t
        return getattr(_t, name)


sim_threading = SimThreadingModule()
sim_time = SimTimeModule()


class SimQueueEmpty(Exception):
    pass


class SimQueue(object):
    """Queue.Queue replacement (unbounded)"""

    def __init__(self, maxsize=0):
        self.items = []

    def put(self, item, block=True, timeout=None):
        self.items.append(item)
        s, me = _sched_me()
        if s is not None and s.sync_points:
            s.point("queue.put")

    def get(self, block=True, timeout=None):
        s, me = _sched_me()
        if s is not None and s.sync_points:
            s.point("queue.get")
        if self.items:
            return self.items.pop(0)
        if not block or s is None:
            import queue
            raise queue.Empty()
        deadline = None if timeout is None else s.clock + timeout
        ok = s.block(lambda: bool(self.items), deadline, "queue.wait")
        if not ok:
            import queue
            raise queue.Empty()
        return self.items.pop(0)

    def qsize(self):
        return len(self.items)

    def empty(self):
        return not self.items

    def _state(self):
        return ("Q", tuple(self.items))
