"""Canonical state encoder (E2/E3).

Walks from roots (threads in id order -> frames in watched files -> locals sorted by name; then the
harness-declared shared roots) and emits a structural encoding in which object identities are
replaced by first-visit indices and unordered collections by sorted encodings.  The rule is over-fine
on purpose (clock value, instruction offsets, all locals): an over-fine key costs time, an
over-coarse key hides bugs.  Objects of classes defined in rpyc / the harness are opened
(__dict__/__slots__); foreign objects are identity-only unless they offer _state().
"""
import hashlib
import itertools
import types
import weakref

from mc import sched as S
from mc import env

_OPEN_PREFIXES = ("rpyc", "checks", "mc.", "__main__", "selftest")
_count_type = type(itertools.count())
# fields dropped, each with its argument:
_DROP = {
    # never read by any code path the properties observe (debug aid only)
    "_last_traceback",
    # the handler table is per-class constant data
    "_HANDLERS",
    # configuration dict: constant during an execution for every harness that uses the cache
    "_config",
}


_netref_types = {}


def _is_netref(t):
    r = _netref_types.get(t)
    if r is None:
        r = _netref_types[t] = any(c.__name__ == "BaseNetref" for c in t.__mro__)
    return r


class Canon(object):
    def __init__(self, id_labels=None):
        self.memo = {}
        self.keep = []
        self.id_labels = id_labels or {}

    def _idx(self, o):
        k = id(o)
        i = self.memo.get(k)
        if i is None:
            i = self.memo[k] = len(self.memo)
            self.keep.append(o)
            return i, True
        return i, False

    def enc(self, o, d=0):
        if o is None or o is True or o is False:
            return o
        t = type(o)
        if t is int:
            lab = self.id_labels.get(o)
            if lab is None and o.bit_length() > 8192:
                # integers beyond the interpreter's int->str digit limit cannot be printed (the key is digested from its repr)
                return ("bigint", o.bit_length(), hash(o))
            return ("id", lab) if lab is not None else o
        if t is float or t is str:
            return o
        if t is bytes:
            return ("b", o)
        if d > 40:
            return ("deep",)
        if t is tuple:
            return ("t",) + tuple(self.enc(x, d + 1) for x in o)
        if t is list:
            i, new = self._idx(o)
            if not new:
                return ("ref", i)
            return ("l", i) + tuple(self.enc(x, d + 1) for x in o)
        if t is dict:
            i, new = self._idx(o)
            if not new:
                return ("ref", i)
            items = [(self.enc(k, d + 1), self.enc(v, d + 1)) for k, v in o.items()]
            try:
                items.sort()
            except TypeError:
                items.sort(key=repr)
            return ("d", i) + tuple(items)
        if t is set or t is frozenset:
            items = [self.enc(x, d + 1) for x in o]
            items.sort(key=repr)
            return ("s",) + tuple(items)
        if t is bytearray:
            return ("ba", bytes(o))
        if t is _count_type:
            return ("count", repr(o))
        if t is S.LThread:
            return ("T", o.id)
        if t is S.Scheduler or t is S.Point:
            return ("sched",)
        if isinstance(o, (types.FunctionType, types.BuiltinFunctionType, type, types.ModuleType)):
            return ("fn", getattr(o, "__qualname__", getattr(o, "__name__", "?")))
        if t is types.MethodType:
            return ("m", o.__func__.__qualname__, self.enc(o.__self__, d + 1))
        if t is weakref.ref or isinstance(o, weakref.ref):
            r = o()
            return ("w", None if r is None else self.enc(r, d + 1))
        i, new = self._idx(o)
        if not new:
            return ("ref", i)
        if _is_netref(t):
            g = object.__getattribute__
            return ("netref", i, self.enc(g(o, "____id_pack__"), d + 1), g(o, "____refcount__"))
        try:
            st = getattr(o, "_state", None)
        except Exception:      # objects with a hostile __getattr__ (rpyc's ClosedFile raises EOFError)
            st = None
        if st is not None and not isinstance(o, type):
            try:
                return ("S", i, self.enc(st(), d + 1))
            except TypeError:
                pass
        mod = getattr(t, "__module__", "") or ""
        if mod.startswith(_OPEN_PREFIXES):
            fields = []
            dct = getattr(o, "__dict__", None)
            if dct:
                for k in sorted(dct):
                    if k in _DROP:
                        continue
                    fields.append((k, self.enc(dct[k], d + 1)))
            for c in t.__mro__:
                for k in getattr(c, "__slots__", ()) or ():
                    if k in _DROP or k == "__weakref__":
                        continue
                    try:
                        v = getattr(o, k)
                    except AttributeError:
                        continue
                    fields.append((k, self.enc(v, d + 1)))
            return ("O", t.__name__, i) + tuple(fields)
        return ("X", t.__name__, i)


def thread_frames(t, file_prefixes):
    """[(qualname, lasti, locals-dict)] from outermost to innermost, watched files only"""
    out = []
    f = t.frame
    while f is not None:
        fn = f.f_code.co_filename
        if fn.startswith(file_prefixes):
            out.append(f)
        f = f.f_back
    out.reverse()
    return out


def state_key(sched, roots, file_prefixes, id_labels=None, extra=None, digest=True):
    c = Canon(id_labels)
    touched = []
    me = S.current_lthread()
    parts = [("clock", sched.clock), ("cur", None if me is None else me.id,
                                      None if sched.last_local is None else sched.last_local.id)]
    for t in sched.threads:
        if t.state == "done":
            parts.append(("T", t.id, "done"))
            continue
        fr = []
        if t is sched.current or t.state in ("ready", "blocked"):
            for f in thread_frames(t, file_prefixes):
                loc = f.f_locals
                # f_lineno, not f_lasti: in CPython 3.12 the saved instruction offset of a *caller* frame
                # depends on whether the call site was specialised yet (observed: 74 vs 92 for the same
                # position), which made keys differ between identical executions.  Position inside a line
                # is still determined by the callee frames above it, the thread's block kind and the last
                # scheduling point (kind, info) recorded below.
                fr.append((f.f_code.co_qualname, f.f_lineno,
                           tuple((k, c.enc(loc[k])) for k in sorted(loc))))
                # f_locals is a snapshot dict cached on the frame: it would keep the locals' current values alive
                # after the code rebinds or deletes them, i.e. computing a key would delay finalizers (proxy release
                # notices, socket closes) and the execution would depend on WHERE keys were computed.  Drop the refs.
                touched.append(loc)
        parts.append(("T", t.id, t.state, t.block_kind if t.state == "blocked" else None,
                      t.deadline if t.state == "blocked" else None, t.last_point, tuple(fr)))
    for r in roots:
        parts.append(c.enc(r))
    if extra is not None:
        parts.append(c.enc(extra))
    key = tuple(parts)
    del c
    for loc in touched:
        loc.clear()
    del touched
    if digest:
        return hashlib.blake2b(repr(key).encode("utf8", "surrogatepass"), digest_size=12).digest()
    return key


DEFAULT_PREFIXES = (env.REPO + "/rpyc", env.VERIF + "/checks")
