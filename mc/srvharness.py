"""Harness for the real rpyc servers (threaded / thread-pool / one-shot) on the simulated socket layer under the
E1 scheduler: per-connection service with hook counters, client actors, settle steps, server-side accounting."""
import gc
import logging

from mc import env
rpyc = env.install_sim()
from mc import sched as S, simos, pair                                    # noqa: E402
import rpyc as _rpyc                                                       # noqa: E402
from rpyc.core.stream import SocketStream                                  # noqa: E402
from rpyc.core.channel import Channel                                      # noqa: E402
from rpyc.utils import server as rserver                                   # noqa: E402
from rpyc.utils.factory import connect_stream                              # noqa: E402
from rpyc.core.async_ import AsyncResultTimeout                            # noqa: E402

simos.install(("stream", "lib", "server", "registry", "factory"))
_lg = logging.getLogger("simsrv")
_lg.disabled = True
_lg.propagate = False

PORT = 18861
UNIX_PATH = "/sim/rpyc.sock"


class Lent(object):
    def __init__(self, owner):
        self.owner = owner

    def exposed_who(self):
        return self.owner


class Svc(_rpyc.Service):
    """one instance per connection (registered as a class)"""
    instances = []

    def __init__(self):
        self.connected = 0
        self.disconnected = 0
        self.store = []
        self.ident = len(Svc.instances)
        self.lent = Lent(self.ident)
        Svc.instances.append(self)

    def on_connect(self, conn):
        self.connected += 1
        self.credentials = conn._config.get("credentials")

    def exposed_whoami(self):
        return self.credentials

    def on_disconnect(self, conn):
        self.disconnected += 1

    def exposed_echo(self, x):
        return ("echo", x)

    def exposed_put(self, x):
        self.store.append(x)
        return len(self.store)

    def exposed_get(self):
        return tuple(self.store)

    def exposed_ident(self):
        return self.ident

    def exposed_lend(self):
        return self.lent

    def exposed_build(self, cls, n):
        """calls a class the CLIENT passed (a callable like any other) and hands the instance back"""
        return cls(n)


def make_server(kind, unix=False, authenticator=None, nthreads=4, protocol_config=None):
    cls = {"threaded": rserver.ThreadedServer, "pool": rserver.ThreadPoolServer, "oneshot": rserver.OneShotServer,
           "forking": rserver.ForkingServer}[kind]
    kw = dict(auto_register=False, logger=_lg, authenticator=authenticator, protocol_config=dict(protocol_config or {}))
    if unix:
        kw["socket_path"] = UNIX_PATH
    else:
        kw.update(hostname="127.0.0.1", port=PORT)
    if kind == "pool":
        kw["nbThreads"] = nthreads
    return cls(Svc, **kw)


class Client(object):
    """a well-behaved client driven through an actor thread"""

    def __init__(self, name, unix=False, timeout=30):
        self.name = name
        self.unix = unix
        self.timeout = timeout
        self.sock = None
        self.conn = None
        self.status = "none"          # none | connected | closed | dropped | refused
        self.actor = pair.Actor("client-" + name).start()
        self.root = None

    def connect(self, preamble=None):
        fam = simos._real_socket.AF_UNIX if self.unix else simos._real_socket.AF_INET
        s = simos.SimSocket(fam)
        try:
            s.connect(UNIX_PATH if self.unix else ("127.0.0.1", PORT))
        except OSError as ex:
            s.close()
            self.status = "refused"
            return ("refused", ex.errno)
        self.sock = s
        if preamble is not None:
            s.send(preamble)
        self.conn = connect_stream(SocketStream(s), config={"sync_request_timeout": self.timeout})
        self.status = "connected"
        return ("connected",)

    def call(self, fn, *args):
        """('value', v) | ('EOFError',) | ('timeout',) | ('exc', name) and the virtual time it took"""
        t0 = S.sim_time.time()
        try:
            if self.root is None:
                self.root = self.conn.root
            r = ("value", getattr(self.root, fn)(*args))
        except S.SimAbort:
            raise
        except EOFError:
            r = ("EOFError",)
        except AsyncResultTimeout:
            r = ("timeout",)
        except Exception as ex:    # noqa
            r = ("exc", type(ex).__name__, str(ex)[:80])
        return r + (round(S.sim_time.time() - t0, 3),)

    def graceful(self):
        self.root = None
        try:
            self.conn.close()
        except Exception:
            pass
        self.status = "closed"

    def abrupt(self):
        """drop the socket without any protocol farewell"""
        self.root = None
        try:
            self.sock.close()
        except Exception:
            pass
        self.conn._closed = True
        self.status = "dropped"

    def fds(self):
        return [self.sock._fd] if (self.sock is not None and not self.sock._closed) else []


def server_accounting(srv, clients, extra_fds=()):
    """what the server process still holds: descriptors not owned by the harness clients, tracked tables"""
    k = simos.kernel()
    mine = set(extra_fds)
    for c in clients:
        mine.update(c.fds())
    srv_fds = [fd for fd in k.open_fds() if fd not in mine]
    out = {"fds": len(srv_fds), "clients": len(srv.clients)}
    if hasattr(srv, "fd_to_conn"):
        out["fd_to_conn"] = len(srv.fd_to_conn)
        out["poll"] = len(srv.poll_object.reg)
    return out


simos.install_processes()


def run(main, choices=(), state_fn=None, cut_fn=None, points=False, horizon=100000, max_steps=2000000):
    gc.disable()
    simos.reset_kernel()
    simos.reset_procs()
    del Svc.instances[:]
    box = {}

    def _main():
        try:
            box["result"] = main()
        except S.SimAbort:
            raise
        except BaseException as ex:   # noqa
            import traceback
            box["exc"] = ex
            box["tb"] = traceback.format_exc()

    sch = S.Scheduler(choices, sync_points=points, io_points=points, horizon=horizon, max_steps=max_steps,
                      state_fn=state_fn, cut_fn=cut_fn)
    sch.run(_main)
    return sch, box
