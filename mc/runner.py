"""E0 -- result collection, known-findings matching, evidence and replay artefacts, exit codes."""
import hashlib
import json
import multiprocessing
import os
import sys
import time
import traceback

VERIF = os.path.dirname(os.path.dirname(os.path.abspath(__file__)))
EVIDENCE_DIR = os.environ.get("VERIF_EVIDENCE_DIR") or os.path.join(VERIF, "evidence")
REPLAY_DIR = os.environ.get("VERIF_REPLAY_DIR") or os.path.join(VERIF, "replays")
KNOWN = os.path.join(VERIF, "known_findings.json")


def seed():
    try:
        return int(os.environ.get("VERIF_SEED", "0"))
    except ValueError:
        return 0


def load_known():
    try:
        with open(KNOWN) as f:
            d = json.load(f)
    except FileNotFoundError:
        return {}
    return dict(((e["property"], e["signature"]), e) for e in d.get("findings", []) if e.get("status") == "open")


def jsonable(o, depth=0):
    if depth > 8:
        return repr(o)[:200]
    if o is None or isinstance(o, (bool, int, str)):
        return o
    if isinstance(o, float):
        return o if o == o and abs(o) != float("inf") else repr(o)
    if isinstance(o, bytes):
        return "hex:" + o[:200].hex() + ("..." if len(o) > 200 else "")
    if isinstance(o, (list, tuple, set, frozenset)):
        return [jsonable(x, depth + 1) for x in list(o)[:200]]
    if isinstance(o, dict):
        return dict((str(k), jsonable(v, depth + 1)) for k, v in list(o.items())[:200])
    return repr(o)[:300]


class Result(object):
    def __init__(self, pid, level, tier, rule):
        self.pid = pid
        self.level = level
        self.tier = tier
        self.rule = rule
        self.t0 = time.time()
        self.evaluations = 0
        self.states = 0
        self.transitions = 0
        self.traces = 0
        self.distinct = set()
        self.distinct_count_extra = 0
        self.samples = []
        self.caps = []
        self.bounds = {}
        self.parts = {}
        self.assumptions = []
        self.violations = []      # (sig, text, replay)
        self.exhaustive = True
        self.info = {}

    # -- accumulation
    def add_sample(self, s, limit=8):
        if len(self.samples) < limit:
            self.samples.append(jsonable(s))

    def nontrivial(self, key):
        self.distinct.add(key if isinstance(key, (str, int, bytes)) else repr(key))

    def violation(self, sig, text, replay=None):
        for v in self.violations:
            if v[0] == sig:
                return
        self.violations.append((sig, text, replay))

    def add_explorer(self, name, ex, extra=None):
        st = ex.stats
        self.evaluations += st.executions
        self.states += st.states
        self.transitions += st.transitions
        self.traces += st.executions
        d = st.as_dict()
        if extra:
            d.update(extra)
        self.parts[name] = d
        if st.caps:
            self.caps.extend("%s:%s" % (name, c) for c in st.caps)
            self.exhaustive = False
        for s in ex.samples:
            self.add_sample(dict(part=name, **s))
        for sig, text, prefix in ex.violations:
            self.violation(sig, text, {"part": name, "choices": prefix})

    # -- finishing
    def finish(self):
        known = load_known()
        wall = time.time() - self.t0
        os.makedirs(EVIDENCE_DIR, exist_ok=True)
        unlisted = []
        listed = []
        for sig, text, replay in self.violations:
            if (self.pid, sig) in known:
                listed.append((sig, text))
            else:
                unlisted.append((sig, text, replay))
        cov = {
            "evaluations": int(self.evaluations),
            "distinct_nontrivial": int(len(self.distinct) + self.distinct_count_extra),
            "rule": self.rule,
            "samples": self.samples or ["<none>"],
            "exhaustive": bool(self.exhaustive and not self.caps),
            "caps_hit": self.caps,
            "bounds": self.bounds,
            "parts": jsonable(self.parts),
            "known_findings_reported": [s for s, _ in listed],
        }
        if self.level == "model_checking":
            cov["states"] = int(max(self.states, 1))
            cov["transitions"] = int(max(self.transitions, 1))
            cov["traces_validated_against_impl"] = int(self.traces)
        cov.update(jsonable(self.info))
        ev = {
            "property_id": self.pid,
            "tier": self.tier,
            "seed": seed(),
            "level": self.level,
            "coverage": cov,
            "assumptions": self.assumptions,
            "wall_s": round(wall, 2),
            "violations": len(unlisted),
        }
        with open(os.path.join(EVIDENCE_DIR, "%s.json" % self.pid), "w") as f:
            json.dump(ev, f, indent=1, sort_keys=True)
        for sig, text in listed:
            print("KNOWN-FINDING: property=%s %s -- %s" % (self.pid, sig, text.splitlines()[0][:300]))
        rc = 0
        if unlisted:
            os.makedirs(REPLAY_DIR, exist_ok=True)
            for sig, text, replay in unlisted:
                if isinstance(replay, dict):
                    replay.setdefault("tier", self.tier)
                h = hashlib.sha1(sig.encode()).hexdigest()[:10]
                path = os.path.join(REPLAY_DIR, "%s-%s.json" % (self.pid, h))
                with open(path, "w") as f:
                    json.dump({"property": self.pid, "signature": sig, "text": text,
                               "replay": jsonable(replay), "tier": self.tier}, f, indent=1)
                print("violation detail: %s :: %s" % (sig, text[:1500]))
                print("VIOLATION property=%s replay=%s" % (self.pid, path))
            rc = 1
        print("%s %s: evaluations=%d states=%d transitions=%d distinct=%d caps=%s wall=%.1fs -> %s" % (
            self.pid, self.tier, self.evaluations, self.states, self.transitions,
            len(self.distinct) + self.distinct_count_extra, self.caps, wall, "FAIL" if rc else "ok"))
        return rc


_PMAP_FN = [None]


def _call(args):
    fn, a = args
    try:
        return ("ok", fn(*a))
    except BaseException:   # noqa
        return ("err", traceback.format_exc())


def _call_global(a):
    # the function is inherited through fork (closures and local functions need no pickling)
    return _call((_PMAP_FN[0], a))


def pmap(fn, arglist, procs=None, chunksize=1, maxtasks=None):
    """run fn(*args) for every args in arglist in forked workers; returns results in order.
    A worker exception is re-raised in the parent as a harness error."""
    arglist = list(arglist)
    if not arglist:
        return []
    procs = procs or min(len(arglist), int(os.environ.get("VERIF_PROCS", "16")))
    if procs <= 1 or len(arglist) == 1:
        out = [_call((fn, a)) for a in arglist]
    else:
        ctx = multiprocessing.get_context("fork")
        _PMAP_FN[0] = fn
        import gc
        import concurrent.futures as cf
        # the parent's heap (visited sets, frontiers) is inherited copy-on-write: keep the children's collector from
        # touching (and thereby copying) it
        gc.collect()
        gc.freeze()
        try:
            if maxtasks is None:
                # an executor (unlike multiprocessing.Pool) notices a worker that died (e.g. killed for memory) and raises
                with cf.ProcessPoolExecutor(procs, mp_context=ctx) as pool:
                    out = list(pool.map(_call_global, arglist, chunksize=chunksize))
            else:
                with ctx.Pool(procs, maxtasksperchild=maxtasks) as pool:
                    out = pool.map(_call_global, arglist, chunksize)
        finally:
            _PMAP_FN[0] = None
            gc.unfreeze()
    res = []
    for tag, v in out:
        if tag == "err":
            raise RuntimeError("worker failed:\n" + v)
        res.append(v)
    return res
