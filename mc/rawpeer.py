"""E5 -- a protocol endpoint written only against refcodec (never against rpyc.core.brine/consts), talking to a real
Connection over an in-memory stream.  Single-threaded: after every frame it sends, it lets the real Connection
serve what arrived; requests the real side sends to the peer meanwhile (release notices, nested class
inspections) are queued in `incoming` and can be answered by a hook."""
from mc import simnet, refcodec as R


def val(v):
    return (R.L_VALUE, v)


def yours(idp):
    """label 3: an object the real side lent to me"""
    return (R.L_LOCAL_REF, idp)


def mine(idp):
    """label 4: a reference to an object of mine"""
    return (R.L_REMOTE_REF, idp)


def tup(*boxed):
    return (R.L_TUPLE, tuple(boxed))


class RawPeer(object):
    def __init__(self, service, config=None, connect=True, compress=True):
        from rpyc.core.channel import Channel
        self.a, self.b = simnet.SimStream.pair("real", "raw")
        self.service = service
        self.conn = service._connect(Channel(self.a, compress), config if config is not None else {}) if connect else None   # the caller's dict, as given
        self.seq = 1000
        self.buf = bytearray()
        self.incoming = []
        self.on_request = None       # callable(peer, seq, args) -> reply payload (kind, boxed) | None
        self.ended = None
        self.early = []
        # nested conversations: while the real side waits for an answer (inside serve), the peer gets to act
        self.a.idle_hook = self._idle

    def _idle(self, stream):
        progress = False
        while True:
            m = self.take()
            if m is None:
                break
            if m[0] == R.REQUEST:
                self.incoming.append(m)
                if self.on_request is not None:
                    rep = self.on_request(self, m[1], m[2])
                    if rep is not None:
                        self.send_payload((rep[0], m[1], rep[1]))
                        progress = True
            else:
                self.early.append(m)
        return progress

    # ---- low level
    def send_payload(self, value):
        self.b.write(R.frame(R.encode(value)))

    def send_raw(self, data):
        self.b.write(data)

    def take(self):
        self.buf += self.b.inbox
        del self.b.inbox[:]
        r = R.unframe(self.buf)
        if r is None:
            return None
        payload, rest = r
        self.buf = bytearray(rest)
        return R.decode(payload, "surrogatepass")

    def pump(self, limit=50):
        """let the real Connection serve everything that is pending; answers its requests through on_request"""
        for _ in range(limit):
            if self.conn.closed or not self.a.inbox:
                break
            try:
                self.conn.serve(0)
            except EOFError:
                self.ended = "eof"
                break
            except Exception as ex:     # noqa
                self.ended = "raised:%s" % type(ex).__name__
                self.ended_exc = ex
                break
        return self.ended

    def request(self, handler, *boxed, **kw):
        """send a request with boxed arguments (label 2 wrapping) and return (kind, args) of the response, or
        ('none'|'eof'|'raised:X', None)"""
        seq = kw.get("seq")
        if seq is None:
            self.seq += 1
            seq = self.seq
        args = kw.get("raw_args", (handler, tup(*boxed)))
        self.send_payload((R.REQUEST, seq, args))
        self.pump()
        while True:
            m = self.early.pop(0) if self.early else self.take()
            if m is None:
                return (self.ended or "none", None)
            kind, s, a = m
            if kind == R.REQUEST:
                self.incoming.append(m)
                if self.on_request is not None:
                    rep = self.on_request(self, s, a)
                    if rep is not None:
                        self.send_payload((rep[0], s, rep[1]))
                        self.pump()
                continue
            if s != seq or type(s) is not type(seq):
                return ("wrong-seq", (s, seq))
            return (kind, a)

    def lend(self, obj):
        """make the real side lend obj to this peer (what returning it from a call would do); returns its id_pack"""
        label, idp = self.conn._box(obj)
        assert label == R.L_REMOTE_REF, label
        return idp

    def close(self):
        if self.conn is not None:
            try:
                self.conn._closed = True
                self.conn._cleanup()
            except Exception:
                pass
