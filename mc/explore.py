"""E2 -- stateless DFS over choice prefixes with iterative preemption bounding and a state cache.

run_fn(prefix, state_fn, cut_fn) must execute the harness once under a fresh Scheduler, replaying
`prefix` and then taking default choices, and return (sched, obs) where obs is a dict with at least
'violations' (list of (signature, text)) and 'outcome_key' (hashable summary of what was observed).
"""
import random
import time
import hashlib


class Stats(object):
    def __init__(self):
        self.executions = 0
        self.completed = 0
        self.cut = 0
        self.states = 0
        self.transitions = 0
        self.max_points = 0
        self.outcomes = {}
        self.caps = []
        self.bound_completed = None
        self.sched_outcomes = {}
        self.wall = 0.0
        self.nontrivial_schedules = 0

    def as_dict(self):
        return dict(executions=self.executions, completed=self.completed, cut=self.cut, states=self.states,
                    transitions=self.transitions, max_points=self.max_points,
                    distinct_outcomes=len(self.outcomes), caps_hit=self.caps,
                    bound_completed=self.bound_completed, sched_outcomes=self.sched_outcomes,
                    nontrivial_schedules=self.nontrivial_schedules, wall_s=round(self.wall, 2))


class Explorer(object):
    def __init__(self, run_fn, bound=None, use_cache=True, max_execs=None, max_seconds=None, seed=0,
                 stop_on_violation=True, keep_samples=3):
        self.run_fn = run_fn
        self.bound = bound
        self.use_cache = use_cache
        self.max_execs = max_execs
        self.max_seconds = max_seconds
        self.rng = random.Random(seed)
        self.visited = {}
        self.edges = set()
        self.stats = Stats()
        self.violations = []      # (signature, text, prefix)
        self.stop_on_violation = stop_on_violation
        self.samples = []
        self.keep_samples = keep_samples

    def _cut(self, key, cost, idx):
        if not self.use_cache or key is None:
            return False
        old = self.visited.get(key)
        if old is not None and old <= cost:
            return True
        self.visited[key] = cost
        return False

    def explore(self, initial_prefixes=None):
        t0 = time.time()
        st = self.stats
        stack = [list(p) for p in (initial_prefixes or [[]])]
        while stack:
            if self.max_execs is not None and st.executions >= self.max_execs:
                st.caps.append("max_execs=%d" % self.max_execs)
                break
            if self.max_seconds is not None and time.time() - t0 > self.max_seconds:
                st.caps.append("max_seconds=%s" % self.max_seconds)
                break
            prefix = stack.pop()
            sched, obs = self.run_fn(prefix, True, self._cut)
            st.executions += 1
            pts = sched.points
            st.max_points = max(st.max_points, len(pts))
            st.sched_outcomes[sched.outcome] = st.sched_outcomes.get(sched.outcome, 0) + 1
            if sched.errors:
                self.violations.append(("HARNESS", "; ".join(sched.errors), list(prefix)))
                if self.stop_on_violation:
                    break
            if sched.outcome == "cut":
                st.cut += 1
            else:
                st.completed += 1
                ok = obs.get("outcome_key")
                st.outcomes[ok] = st.outcomes.get(ok, 0) + 1
                if any(p.chosen > 0 for p in pts):
                    st.nontrivial_schedules += 1
                if len(self.samples) < self.keep_samples:
                    self.samples.append({"choices": [p.chosen for p in pts if p.chosen >= 0],
                                         "outcome": sched.outcome, "observed": repr(ok)[:300]})
            for sig, text in obs.get("violations", ()):
                self.violations.append((sig, text, [p.chosen for p in pts if p.chosen >= 0]))
            if self.violations and self.stop_on_violation:
                break
            # expand alternatives at the points beyond the prefix
            choices = [p.chosen for p in pts]
            new = []
            for i in range(len(prefix), len(pts)):
                p = pts[i]
                if p.chosen < 0:
                    break
                if p.key is not None:
                    self.edges.add((p.key, 0))
                preempt = 1 if (p.cur_enabled and p.kind != "env") else 0
                if self.bound is not None and p.cost_before + preempt > self.bound:
                    continue
                alts = list(range(1, p.n))
                for alt in alts:
                    if p.key is not None:
                        self.edges.add((p.key, alt))
                    new.append(choices[:i] + [alt])
            # DFS: deepest alternatives first (they share the longest prefix with what just ran)
            stack.extend(new)
        st.states = len(self.visited)
        st.transitions = len(self.edges)
        st.wall = time.time() - t0
        if not st.caps:
            st.bound_completed = "unbounded" if self.bound is None else self.bound
        return st


def digest(obj):
    return hashlib.blake2b(repr(obj).encode("utf8", "surrogatepass"), digest_size=10).hexdigest()
