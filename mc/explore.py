"""E2 -- stateless DFS over choice prefixes with iterative preemption bounding and a state cache.

run_fn(prefix, want_state, cut_fn) executes the harness once under a fresh Scheduler, replaying
`prefix` and then taking default choices, and returns (sched, obs) where obs is a dict with
'violations' (list of (signature, text)) and 'outcome_key' (hashable summary of what was observed).

Soundness of the cache: a path is cut when it reaches a canonical state already expanded with <= the
current preemption cost; the state key contains every thread's frames+locals, the shared objects and
the oracle monitor, so cutting never merges paths the oracle could tell apart.
"""
import hashlib
import multiprocessing
import os
import time


class Stats(object):
    def __init__(self):
        self.executions = 0
        self.completed = 0
        self.cut = 0
        self.states = 0
        self.transitions = 0
        self.max_points = 0
        self.outcomes = {}
        self.caps = []
        self.bound_completed = None
        self.sched_outcomes = {}
        self.wall = 0.0
        self.nontrivial_schedules = 0
        self.rounds = 0
        self.divergence_retries = 0
        self.unreproducible = 0
        self.unconfirmed = 0

    def as_dict(self):
        return dict(executions=self.executions, completed=self.completed, cut=self.cut, states=self.states,
                    transitions=self.transitions, max_points=self.max_points,
                    distinct_outcomes=len(self.outcomes), caps_hit=self.caps,
                    bound_completed=self.bound_completed, sched_outcomes=self.sched_outcomes,
                    nontrivial_schedules=self.nontrivial_schedules, wall_s=round(self.wall, 2),
                    rounds=self.rounds, divergence_retries=self.divergence_retries,
                    unreproducible_prefixes=self.unreproducible, unconfirmed_violations=self.unconfirmed)


class Explorer(object):
    def __init__(self, run_fn, bound=None, use_cache=True, max_execs=None, max_seconds=None, seed=0,
                 stop_on_violation=True, keep_samples=3, visited=None, deviations=False):
        self.deviations = deviations     # bound counts every non-default choice (not only preemptions)
        self.confirm = True
        self.run_fn = run_fn
        self.bound = bound
        self.use_cache = use_cache
        self.max_execs = max_execs
        self.max_seconds = max_seconds
        self.visited = {} if visited is None else visited
        self.new_visited = None      # when a dict: log of entries added/lowered (parallel mode)
        self.edges = set()
        self.stats = Stats()
        self.violations = []      # (signature, text, choices)
        self.stop_on_violation = stop_on_violation
        self.samples = []
        self.keep_samples = keep_samples
        self.stack = []

    def _must_stop(self):
        sv = self.stop_on_violation
        if not self.violations or not sv:
            return False
        if callable(sv):
            return any(sv(v[0]) for v in self.violations)
        return True

    def _cut(self, key, cost, idx):
        if not self.use_cache or key is None:
            return False
        old = self.visited.get(key)
        if old is not None and old <= cost:
            return True
        self.visited[key] = cost
        if self.new_visited is not None:
            self.new_visited[key] = cost
        return False

    def explore(self, initial_prefixes=None, budget_execs=None):
        """DFS from the given prefixes.  Returns stats; leftover work (when a budget/cap stops the
        search) stays in self.stack."""
        t0 = time.time()
        st = self.stats
        self.stack = stack = [list(p) for p in (initial_prefixes if initial_prefixes is not None else [[]])]
        n0 = st.executions
        while stack:
            if budget_execs is not None and st.executions - n0 >= budget_execs:
                break
            if self.max_execs is not None and st.executions >= self.max_execs:
                st.caps.append("max_execs=%d" % self.max_execs)
                break
            if self.max_seconds is not None and time.time() - t0 > self.max_seconds:
                st.caps.append("max_seconds=%s" % self.max_seconds)
                break
            prefix = stack.pop()
            sched, obs = self.run_fn(prefix, self.use_cache, self._cut)
            tries = 0
            while sched.outcome == "divergence" and tries < 2:
                # a replayed prefix did not find the choice it recorded.  Re-run it: a divergence that does not repeat is
                # a transient of the harness (counted and reported), one that repeats 3 times is a hard harness error
                tries += 1
                st.divergence_retries += 1
                sched, obs = self.run_fn(prefix, self.use_cache, self._cut)
            st.executions += 1
            pts = sched.points
            st.max_points = max(st.max_points, len(pts))
            st.sched_outcomes[sched.outcome] = st.sched_outcomes.get(sched.outcome, 0) + 1
            choices_taken = [p.chosen for p in pts if p.chosen >= 0]
            if sched.outcome == "divergence":
                # the prefix (recorded by an earlier execution) could not be replayed, three times in a row: the
                # execution that recorded it was not reproducible.  No verdict is derived from it; it is reported as
                # incomplete coverage (caps), never as a property violation.
                st.unreproducible += 1
                continue
            if sched.errors:
                self.violations.append(("HARNESS", "; ".join(sched.errors), choices_taken))
                if self._must_stop():
                    break
            if sched.outcome == "cut":
                st.cut += 1
            else:
                st.completed += 1
                ok = obs.get("outcome_key")
                st.outcomes[ok] = st.outcomes.get(ok, 0) + 1
                if any(c > 0 for c in choices_taken):
                    st.nontrivial_schedules += 1
                if len(self.samples) < self.keep_samples:
                    self.samples.append({"choices": choices_taken, "outcome": sched.outcome,
                                         "observed": repr(ok)[:300]})
            vs = list(obs.get("violations", ()))
            if vs and self.confirm:
                # trust a failure only if the same schedule fails the same way twice more
                want = sorted(v[0] for v in vs)
                ok = True
                for _ in range(2):
                    s2, o2 = self.run_fn(choices_taken, False, None)
                    if s2.outcome == "divergence" or sorted(v[0] for v in o2.get("violations", ())) != want:
                        ok = False
                        break
                if not ok:
                    st.unconfirmed += 1
                    vs = []
            for sig, text in vs:
                self.violations.append((sig, text, choices_taken))
            if self._must_stop():
                break
            choices = [p.chosen for p in pts]
            new = []
            for i in range(len(prefix), len(pts)):
                p = pts[i]
                if p.chosen < 0:
                    break
                if p.key is not None:
                    self.edges.add((p.key, 0))
                ndev = sum(1 for x in choices[:i] if x > 0) if self.deviations else 0
                for alt in range(1, p.n):
                    c = 0 if p.costs is None else p.costs[alt]
                    if self.deviations:
                        if self.bound is not None and ndev + 1 > self.bound:
                            continue
                    elif self.bound is not None and p.cost_before + c > self.bound:
                        continue
                    if p.key is not None:
                        self.edges.add((p.key, alt))
                    new.append(choices[:i] + [alt])
            stack.extend(new)
        st.states = len(self.visited)
        st.transitions = len(self.edges)
        st.wall += time.time() - t0
        if (st.unreproducible or st.unconfirmed) and not any(c.startswith("unreproducible") for c in st.caps):
            st.caps.append("unreproducible_prefixes=%d unconfirmed_violations=%d" % (st.unreproducible, st.unconfirmed))
        if not st.caps and not stack:
            st.bound_completed = "unbounded" if self.bound is None else self.bound
        return st


# ---------------------------------------------------------------------------------- parallel search
_G = {}


def _worker(task):
    prefixes, budget = task
    ex = Explorer(_G["run_fn"], bound=_G["bound"], visited=_G["visited"], stop_on_violation=_G["stop"],
                  keep_samples=1, use_cache=_G.get("use_cache", True), deviations=_G.get("deviations", False))
    ex.new_visited = {}
    ex.explore(prefixes, budget_execs=budget)
    st = ex.stats
    return (ex.new_visited, ex.edges, ex.stack, ex.violations, ex.samples,
            dict(executions=st.executions, completed=st.completed, cut=st.cut, max_points=st.max_points,
                 outcomes=st.outcomes, sched_outcomes=st.sched_outcomes,
                 nontrivial=st.nontrivial_schedules, divergence_retries=st.divergence_retries,
                 unreproducible=st.unreproducible, unconfirmed=st.unconfirmed))


class ParallelExplorer(object):
    """Round-based parallel DFS.  Each round forks a pool (workers inherit the master's visited map
    copy-on-write), every worker explores the subtrees of its prefixes with a budget, the master merges
    the new visited entries (min cost), edges, outcomes and leftover prefixes."""

    def __init__(self, run_fn, bound=None, procs=None, task_execs=150, max_seconds=None, max_execs=None,
                 stop_on_violation=True, warmup_execs=40, use_cache=True, deviations=False):
        self.use_cache = use_cache
        self.deviations = deviations
        self.run_fn = run_fn
        self.bound = bound
        self.procs = procs or int(os.environ.get("VERIF_PROCS", "16"))
        self.task_execs = task_execs
        self.max_seconds = max_seconds
        self.max_execs = max_execs
        self.stop = stop_on_violation
        self.warmup = warmup_execs
        self.stats = Stats()
        self.violations = []
        self.samples = []
        self.visited = {}
        self.edges = set()

    def _must_stop(self):
        sv = self.stop
        if not self.violations or not sv:
            return False
        if callable(sv):
            return any(sv(v[0]) for v in self.violations)
        return True

    def explore(self):
        t0 = time.time()
        st = self.stats
        ex = Explorer(self.run_fn, bound=self.bound, visited=self.visited, stop_on_violation=self.stop, use_cache=self.use_cache,
                      deviations=self.deviations)
        ex.explore([[]], budget_execs=self.warmup)
        frontier = ex.stack
        self.edges |= ex.edges
        self.violations.extend(ex.violations)
        self.samples.extend(ex.samples)
        for k in ("executions", "completed", "cut"):
            setattr(st, k, getattr(ex.stats, k))
        st.max_points = ex.stats.max_points
        st.outcomes = dict(ex.stats.outcomes)
        st.sched_outcomes = dict(ex.stats.sched_outcomes)
        st.nontrivial_schedules = ex.stats.nontrivial_schedules
        ctx = multiprocessing.get_context("fork")
        while frontier and not self._must_stop():
            if self.max_seconds is not None and time.time() - t0 > self.max_seconds:
                st.caps.append("max_seconds=%s" % self.max_seconds)
                break
            if self.max_execs is not None and st.executions >= self.max_execs:
                st.caps.append("max_execs=%s" % self.max_execs)
                break
            st.rounds += 1
            _G.update(run_fn=self.run_fn, bound=self.bound, visited=self.visited, stop=self.stop, use_cache=self.use_cache,
                      deviations=self.deviations)
            # deepest prefixes last in the stack; hand them out round-robin so every worker gets a mix
            ntasks = min(len(frontier), self.procs * 4)
            buckets = [[] for _ in range(ntasks)]
            for i, p in enumerate(frontier):
                buckets[i % ntasks].append(p)
            tasks = [(b, self.task_execs) for b in buckets]
            with ctx.Pool(min(self.procs, ntasks)) as pool:
                results = pool.map(_worker, tasks, 1)
            frontier = []
            for newv, edges, left, viols, samples, d in results:
                for k, c in newv.items():
                    old = self.visited.get(k)
                    if old is None or c < old:
                        self.visited[k] = c
                self.edges |= edges
                frontier.extend(left)
                self.violations.extend(viols)
                if len(self.samples) < 4:
                    self.samples.extend(samples)
                st.executions += d["executions"]
                st.completed += d["completed"]
                st.cut += d["cut"]
                st.max_points = max(st.max_points, d["max_points"])
                st.nontrivial_schedules += d["nontrivial"]
                st.divergence_retries += d.get("divergence_retries", 0)
                st.unreproducible += d.get("unreproducible", 0)
                st.unconfirmed += d.get("unconfirmed", 0)
                for k, v in d["outcomes"].items():
                    st.outcomes[k] = st.outcomes.get(k, 0) + v
                for k, v in d["sched_outcomes"].items():
                    st.sched_outcomes[k] = st.sched_outcomes.get(k, 0) + v
        st.states = len(self.visited)
        st.transitions = len(self.edges)
        st.wall = time.time() - t0
        if st.unreproducible or st.unconfirmed:
            st.caps.append("unreproducible_prefixes=%d unconfirmed_violations=%d" % (st.unreproducible, st.unconfirmed))
        if not st.caps and not frontier:
            st.bound_completed = "unbounded" if self.bound is None else self.bound
        return st


def digest(obj):
    return hashlib.blake2b(repr(obj).encode("utf8", "surrogatepass"), digest_size=10).hexdigest()
