"""E2 -- line (optionally instruction) granularity scheduling points via sys.monitoring (PEP 669).

watch(funcs) makes every source line of the given *functions* (never line numbers, so edits do not
shift the watch set) a scheduling point for logical threads.  Only watched code objects pay the cost.
"""
import sys
from mc import sched as S

mon = sys.monitoring
TOOL = 4
_active = False
_watched = {}        # code -> mode ('line' | 'opcode')


def _line_cb(code, line):
    s = getattr(S._tls, "sched", None)
    if s is not None:
        s.point("line", (code.co_name, line))


def _instr_cb(code, offset):
    s = getattr(S._tls, "sched", None)
    if s is not None:
        s.point("op", (code.co_name, offset))


def _code_of(f):
    f = getattr(f, "__func__", f)
    f = getattr(f, "fget", f)
    f = getattr(f, "__wrapped__", f)
    return f.__code__


def all_codes(code):
    """a code object and every nested code object (lambdas, inner functions, comprehensions)"""
    out = [code]
    for c in code.co_consts:
        if hasattr(c, "co_code"):
            out.extend(all_codes(c))
    return out


def watch(funcs, opcode=()):
    global _active
    if not _active:
        mon.use_tool_id(TOOL, "verif-mc")
        mon.register_callback(TOOL, mon.events.LINE, _line_cb)
        mon.register_callback(TOOL, mon.events.INSTRUCTION, _instr_cb)
        _active = True
    for f in funcs:
        for code in all_codes(_code_of(f)):
            _watched[code] = "line"
            mon.set_local_events(TOOL, code, mon.events.LINE)
    for f in opcode:
        for code in all_codes(_code_of(f)):
            _watched[code] = "opcode"
            mon.set_local_events(TOOL, code, mon.events.INSTRUCTION)


def unwatch_all():
    global _active
    if not _active:
        return
    for code in list(_watched):
        mon.set_local_events(TOOL, code, 0)
    _watched.clear()
    mon.free_tool_id(TOOL)
    _active = False


def watched_names():
    return sorted("%s:%s" % (c.co_filename.rsplit("/", 1)[-1], c.co_qualname) for c in _watched)
