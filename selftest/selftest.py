#!/venv/bin/python
"""setup-time self-tests: determinism of replay, reduction cross-check (cached vs uncached search)."""
import os
import sys
HERE = os.path.dirname(os.path.dirname(os.path.abspath(__file__)))
sys.path.insert(0, HERE)
os.environ.setdefault("PYTHONHASHSEED", "0")


def main():
    from checks import c12_send as c
    from mc import explore
    c.env.silence_unraisable()
    c.install_watch(False)
    # 1. determinism: the same prefix twice gives identical point sequences and observations
    run = c.make_run(2, 1, True)
    for prefix in ([], [0, 0, 1], [0, 1, 0, 1, 1]):
        a = run(prefix, True, None)
        b = run(prefix, True, None)
        ka = [(p.kind, p.n, p.chosen, p.key) for p in a[0].points]
        kb = [(p.kind, p.n, p.chosen, p.key) for p in b[0].points]
        assert ka == kb, "nondeterministic replay for %r" % (prefix,)
        assert a[1] == b[1]
    # 2. reduction cross-check: cached search and uncached search with preemption bound 2 observe the same outcomes
    e1 = explore.Explorer(c.make_run(2, 1, False), bound=2, use_cache=True)
    e1.explore()
    e2 = explore.Explorer(c.make_run(2, 1, False), bound=2, use_cache=False, max_execs=20000)
    e2.explore()
    assert not e2.stats.caps, e2.stats.caps
    assert set(e1.stats.outcomes) == set(e2.stats.outcomes), (e1.stats.outcomes, e2.stats.outcomes)
    assert not e1.violations and not e2.violations
    print("selftest ok: replay deterministic; reduction cross-check cached=%d execs uncached=%d execs, same %d outcome(s)" % (
        e1.stats.executions, e2.stats.executions, len(e1.stats.outcomes)))
    return 0


if __name__ == "__main__":
    rc = main()
    sys.stdout.flush()
    os._exit(rc)
