#!/venv/bin/python
"""setup-time self-tests: determinism of replay, reduction cross-check (cached vs uncached search)."""
import os
import sys
HERE = os.path.dirname(os.path.dirname(os.path.abspath(__file__)))
sys.path.insert(0, HERE)
os.environ.setdefault("PYTHONHASHSEED", "0")


def main():
    from checks import c12_send as c
    from mc import explore
    c.env.silence_unraisable()
    c.install_watch(False)
    # 1. determinism: the same prefix twice gives identical point sequences and observations
    run = c.make_run(2, 1, True)
    for prefix in ([], [0, 0, 1], [0, 1, 0, 1, 1]):
        a = run(prefix, True, None)
        b = run(prefix, True, None)
        ka = [(p.kind, p.n, p.chosen, p.key) for p in a[0].points]
        kb = [(p.kind, p.n, p.chosen, p.key) for p in b[0].points]
        assert ka == kb, "nondeterministic replay for %r" % (prefix,)
        assert a[1] == b[1]
    # 2. reduction cross-check: cached search and uncached search with preemption bound 2 observe the same outcomes
    e1 = explore.Explorer(c.make_run(2, 1, False), bound=2, use_cache=True)
    e1.explore()
    e2 = explore.Explorer(c.make_run(2, 1, False), bound=2, use_cache=False, max_execs=20000)
    e2.explore()
    assert not e2.stats.caps, e2.stats.caps
    assert set(e1.stats.outcomes) == set(e2.stats.outcomes), (e1.stats.outcomes, e2.stats.outcomes)
    assert not e1.violations and not e2.violations
    print("selftest ok: replay deterministic; reduction cross-check cached=%d execs uncached=%d execs, same %d outcome(s)" % (
        e1.stats.executions, e2.stats.executions, len(e1.stats.outcomes)))
    # 3. partial-order reduction for the environment peer (C13/C14): with and without it, the same stall signatures
    #    and the same requester-visible outcomes (1 requester + background thread, preemption bound 2)
    from checks import c13_replies as c13
    c13.FULL_WATCH[0] = False
    c13.prepare()
    sigs = {}
    outs = {}
    for por in (("stream.poll",), None):
        c13.POR_AT = por
        run = c13.adapt(c13.make_run(1, 1, True, stop_at_stall=True), "C14")
        ex = explore.Explorer(run, bound=2, stop_on_violation=False, max_execs=60000)
        ex.explore()
        assert not ex.stats.caps, ex.stats.caps
        sigs[por] = set(v[0] for v in ex.violations)
        outs[por] = set((k[0], k[1]) for k in ex.stats.outcomes)
    c13.POR_AT = ("stream.poll",)
    assert sigs[("stream.poll",)] == sigs[None], sigs
    assert outs[("stream.poll",)] == outs[None], outs
    print("selftest ok: peer partial-order reduction preserves stall signatures %r and outcomes" % (sorted(sigs[None]),))
    return 0


if __name__ == "__main__":
    rc = main()
    sys.stdout.flush()
    os._exit(rc)
