#!/venv/bin/python
"""Conformance of the simulated kernel (mc/simos.py) against the real one: a table of scripted socket / poll
scenarios is executed on SimOS (inside a scheduler run, virtual time) and on real loopback / unix sockets, and the
observations are compared.  A mismatch is a harness error (never a property verdict)."""
import errno
import os
import socket as real_socket
import sys
import tempfile
import time as real_time

HERE = os.path.dirname(os.path.dirname(os.path.abspath(__file__)))
sys.path.insert(0, HERE)


def ename(ex):
    if isinstance(ex, real_socket.timeout):
        return "timeout"
    if isinstance(ex, OSError):
        return errno.errorcode.get(ex.errno, str(ex.errno))
    return type(ex).__name__


def attempt(fn):
    try:
        return ("ok", fn())
    except Exception as ex:    # noqa
        return ("err", ename(ex))


class RealAPI(object):
    name = "real"

    def __init__(self):
        self.tmp = tempfile.mkdtemp(prefix="kconf")
        from rpyc.lib.compat import poll
        self.poll_cls = poll

    def socket(self, fam=real_socket.AF_INET, typ=real_socket.SOCK_STREAM):
        return real_socket.socket(fam, typ)

    def unix_path(self):
        return os.path.join(self.tmp, "s.sock")

    def settle(self):
        real_time.sleep(0.05)

    def spawn(self, fn):
        import threading
        t = threading.Thread(target=fn)
        t.start()
        return t

    def sleep(self, d):
        real_time.sleep(d)

    def now(self):
        return real_time.monotonic()

    def poll(self):
        return self.poll_cls()

    def cleanup(self):
        import shutil
        shutil.rmtree(self.tmp, ignore_errors=True)


class SimAPI(object):
    name = "sim"

    def __init__(self):
        from mc import simos
        self.simos = simos
        simos.reset_kernel()

    def socket(self, fam=real_socket.AF_INET, typ=real_socket.SOCK_STREAM):
        return self.simos.SimSocket(fam, typ)

    def unix_path(self):
        return "/sim/kconf.sock"

    def settle(self):
        from mc import sched as S
        S.sim_time.sleep(0.05)

    def spawn(self, fn):
        from mc import sched as S
        t = S.SimThread(target=fn)
        t.start()
        return t

    def sleep(self, d):
        from mc import sched as S
        S.sim_time.sleep(d)

    def now(self):
        from mc import sched as S
        return S.sim_time.time()

    def poll(self):
        return self.simos.SimPoll()

    def cleanup(self):
        pass


def pair(api, unix=False):
    fam = real_socket.AF_UNIX if unix else real_socket.AF_INET
    ls = api.socket(fam)
    if unix:
        ls.bind(api.unix_path())
        addr = api.unix_path()
    else:
        ls.bind(("127.0.0.1", 0))
        addr = ls.getsockname()
    ls.listen(5)
    c = api.socket(fam)
    c.connect(addr)
    ls.settimeout(2)
    s, _ = ls.accept()
    return ls, c, s


def scenarios(api):
    obs = {}
    # 1. basic data transfer, both directions
    ls, c, s = pair(api)
    c.send(b"hello")
    api.settle()
    obs["1.recv"] = attempt(lambda: s.recv(100))
    s.send(b"yo")
    api.settle()
    obs["1.recv-back"] = attempt(lambda: c.recv(1))
    obs["1.recv-rest"] = attempt(lambda: c.recv(10))
    # 2. recv on empty: timeout and non-blocking
    c.settimeout(0.2)
    obs["2.recv-timeout"] = attempt(lambda: c.recv(10))
    c.settimeout(0.0)
    obs["2.recv-nonblocking"] = attempt(lambda: c.recv(10))
    c.settimeout(None)
    # 8a. poll flags: nothing / data / registration letters
    p = api.poll()
    p.register(s.fileno(), "r")
    obs["8.poll-idle"] = attempt(lambda: sorted(p.poll(0)))
    c.send(b"x")
    api.settle()
    obs["8.poll-data"] = attempt(lambda: [m for _, m in p.poll(0)])
    s.recv(10)
    p2 = api.poll()
    p2.register(s.fileno(), "reh")
    obs["8.poll-idle-reh"] = attempt(lambda: [m for _, m in p2.poll(0)])
    # 4. peer shutdown(WR) -> EOF readable, poll says r
    c.shutdown(real_socket.SHUT_WR)
    api.settle()
    obs["4.poll-after-peer-shut-wr"] = attempt(lambda: [m for _, m in p2.poll(0)])
    obs["4.recv-after-peer-shut-wr"] = attempt(lambda: s.recv(10))
    obs["4.send-to-half-closed-peer"] = attempt(lambda: s.send(b"still"))
    api.settle()
    obs["4.half-closed-peer-reads"] = attempt(lambda: c.recv(10))
    # own shutdown(RDWR) then recv
    s.shutdown(real_socket.SHUT_RDWR)
    obs["4.recv-after-own-shutdown"] = attempt(lambda: s.recv(10))
    obs["4.send-after-own-shutdown"] = attempt(lambda: s.send(b"x"))
    obs["8.poll-both-shut-reh"] = attempt(lambda: sorted(set("".join(m for _, m in p2.poll(0)))))
    c.close()
    s.close()
    ls.close()
    # 3. send after the peer closed: first succeeds, second fails
    ls, c, s = pair(api)
    s.close()
    api.settle()
    obs["3.recv-after-peer-close"] = attempt(lambda: c.recv(10))
    obs["3.first-send-after-peer-close"] = attempt(lambda: c.send(b"a"))
    api.settle()
    obs["3.second-send-after-peer-close"] = attempt(lambda: c.send(b"b"))
    c.close()
    ls.close()
    # 5. close with unread data resets the connection
    ls, c, s = pair(api)
    c.send(b"unread")
    api.settle()
    s.close()
    api.settle()
    obs["5.recv-after-peer-closed-with-unread-data"] = attempt(lambda: c.recv(10))
    c.close()
    ls.close()
    # 6. shutdown on an unconnected socket; 7. double close, fileno after close
    u = api.socket()
    obs["6.shutdown-unconnected"] = attempt(lambda: u.shutdown(real_socket.SHUT_RDWR))
    u.close()
    obs["7.double-close"] = attempt(lambda: u.close())
    obs["7.fileno-after-close"] = attempt(lambda: u.fileno())
    obs["7.send-after-close"] = attempt(lambda: u.send(b"x"))
    # 8b. poll on a closed-but-registered descriptor
    ls, c, s = pair(api)
    p3 = api.poll()
    fd = s.fileno()
    p3.register(fd, "reh")
    s.close()
    obs["8.poll-closed-fd"] = attempt(lambda: [m for _, m in p3.poll(0)])
    obs["8.register-negative-fd"] = attempt(lambda: api.poll().register(-1, "r"))
    c.close()
    # 9. accept timeout; 10. connect to a closed listener
    ls.settimeout(0.2)
    obs["9.accept-timeout"] = attempt(lambda: ls.accept())
    addr = ls.getsockname()
    ls.close()
    k = api.socket()
    obs["10.connect-to-closed-listener"] = attempt(lambda: k.connect(addr))
    k.close()
    # peer close seen by poll: r (no h while our side is open)
    ls, c, s = pair(api)
    p4 = api.poll()
    p4.register(s.fileno(), "reh")
    c.close()
    api.settle()
    obs["8.poll-after-peer-close-reh"] = attempt(lambda: [m for _, m in p4.poll(0)])
    obs["8.recv-after-peer-close"] = attempt(lambda: s.recv(10))
    s.close()
    ls.close()
    # 13. the client resets the connection (SO_LINGER 0) while it still sits in the listen backlog
    import struct
    ls = api.socket()
    ls.bind(("127.0.0.1", 0))
    ls.listen(5)
    c = api.socket()
    c.connect(ls.getsockname())
    c.setsockopt(real_socket.SOL_SOCKET, real_socket.SO_LINGER, struct.pack("ii", 1, 0))
    c.close()
    api.settle()
    ls.settimeout(1)
    r = attempt(lambda: ls.accept())
    obs["13.accept-after-reset-in-backlog"] = r[0]
    if r[0] == "ok":
        s2 = r[1][0]
        obs["13.getpeername-after-reset"] = attempt(lambda: s2.getpeername())
        obs["13.shutdown-after-reset"] = attempt(lambda: s2.shutdown(real_socket.SHUT_RDWR))
        obs["13.recv-after-reset"] = attempt(lambda: s2.recv(10))
        s2.close()
    ls.close()
    # 11. UDP
    a = api.socket(real_socket.AF_INET, real_socket.SOCK_DGRAM)
    b = api.socket(real_socket.AF_INET, real_socket.SOCK_DGRAM)
    a.bind(("127.0.0.1", 0))
    b.bind(("127.0.0.1", 0))
    b.sendto(b"0123456789", a.getsockname())
    api.settle()
    a.settimeout(0.2)
    r = attempt(lambda: a.recvfrom(4))
    obs["11.udp-truncation"] = (r[0], r[1][0] if r[0] == "ok" else r[1])
    obs["11.udp-source-is-sender"] = (r[0] == "ok" and r[1][1][1] == b.getsockname()[1])
    obs["11.udp-recv-empty"] = attempt(lambda: a.recvfrom(10))
    a.close()
    b.close()
    # 12. unix path sockets
    ls, c, s = pair(api, unix=True)
    c.send(b"unix")
    api.settle()
    obs["12.unix-recv"] = attempt(lambda: s.recv(10))
    obs["12.unix-getpeername-type"] = attempt(lambda: type(s.getpeername()).__name__)
    c.close()
    api.settle()
    obs["12.unix-eof"] = attempt(lambda: s.recv(10))
    s.close()
    ls.close()
    return obs


class Forker(object):
    """the call shape rpyc's ForkingServer uses: `pid = os.fork()` first thing in _accept_method(self, sock)"""

    def __init__(self, api, os_mod):
        self.api = api
        self.os = os_mod
        self.clients = set()
        self.listener = None
        self.pids = []

    def _accept_method(self, sock):
        pid = self.os.fork()
        if pid == 0:
            try:
                self.listener.close()
                self.clients.clear()
                while True:
                    d = sock.recv(100)
                    if not d or d == b"quit":
                        break
                    sock.send(b"child:" + d)
            finally:
                self.os._exit(0)
        else:
            self.pids.append(pid)
            sock.close()
            self.clients.discard(sock)


def fork_scenario(api, os_mod):
    obs = {}
    f = Forker(api, os_mod)
    ls = api.socket()
    ls.bind(("127.0.0.1", 0))
    ls.listen(5)
    f.listener = ls
    addr0 = ls.getsockname()
    c = api.socket()
    c.connect(addr0)
    ls.settimeout(2)
    s, _ = ls.accept()
    f.clients.add(s)
    f._accept_method(s)
    api.settle()
    # the parent closed its copy: the connection lives on in the child
    c.settimeout(2)
    c.send(b"one")
    api.settle()
    obs["f.served-by-child-after-parent-closed-its-copy"] = attempt(lambda: c.recv(100))
    # closing the parent's listener does not touch the child's connection
    ls.close()
    api.settle()
    c.send(b"two")
    api.settle()
    obs["f.still-served-after-parent-closed-listener"] = attempt(lambda: c.recv(100))
    k = api.socket()
    obs["f.listener-really-closed"] = attempt(lambda: k.connect(addr0))
    k.close()
    r = attempt(lambda: os_mod.waitpid(-1, os_mod.WNOHANG))
    obs["f.waitpid-while-child-runs"] = r
    c.send(b"quit")
    api.settle()
    api.settle()
    obs["f.eof-after-child-exit"] = attempt(lambda: c.recv(100))
    r = attempt(lambda: os_mod.waitpid(-1, os_mod.WNOHANG))
    obs["f.waitpid-reaps-child"] = (r[0], (r[1][0] == f.pids[0], r[1][1]) if r[0] == "ok" else r[1])
    obs["f.waitpid-no-children"] = attempt(lambda: os_mod.waitpid(-1, os_mod.WNOHANG))
    c.close()
    return obs


def other_thread_scenario(api):
    """what a thread blocked in poll() / recv() sees when ANOTHER thread closes, or shuts down, the socket"""
    obs = {}
    for how in ("close", "shutdown"):
        for call in ("poll", "recv"):
            ls, c, s = pair(api)
            s.settimeout(1.0)
            out = {}

            def blocked():
                t0 = api.now()
                if call == "poll":
                    p = api.poll()
                    p.register(s.fileno(), "r")
                    r = attempt(lambda: sorted(set("".join(m for _, m in p.poll(1.0)))))
                else:
                    r = attempt(lambda: s.recv(10))
                out["r"] = (r, "early" if api.now() - t0 < 0.7 else "at-timeout")
            t = api.spawn(blocked)
            api.sleep(0.3)
            if how == "close":
                s.close()
            else:
                s.shutdown(real_socket.SHUT_RDWR)
            t.join(5)
            obs["h.%s-blocked-thread-when-another-thread-does-%s" % (call, how)] = out.get("r")
            for x in (c, ls):
                x.close()
            if how == "shutdown":
                s.close()
    return obs


def sigchld_scenario(api, os_mod, signal_mod, now):
    """a child exiting while the parent is blocked in accept(): the SIGCHLD handler runs at once (the call is
    interrupted and retried), not when the accept time-out expires"""
    obs = {}
    f = Forker(api, os_mod)
    ls = api.socket()
    ls.bind(("127.0.0.1", 0))
    ls.listen(5)
    f.listener = ls
    log = []

    def handler(signum, frame):
        try:
            while True:
                pid, st = os_mod.waitpid(-1, os_mod.WNOHANG)
                if pid <= 0:
                    break
                log.append((now(), pid))
        except OSError:
            pass
    old = signal_mod.signal(signal_mod.SIGCHLD, handler)
    try:
        c = api.socket()
        c.connect(ls.getsockname())
        ls.settimeout(2)
        s, _ = ls.accept()
        f._accept_method(s)
        api.settle()
        t0 = now()
        c.send(b"quit")
        r = attempt(lambda: ls.accept())          # nobody connects: blocks until the time-out
        t1 = now()
        obs["g.accept-times-out-despite-signal"] = r
        obs["g.handler-ran-once-and-reaped-the-child"] = [pid == f.pids[0] for _, pid in log]
        obs["g.handler-ran-during-the-blocked-accept"] = bool(log) and (log[0][0] - t0) < 1.0 and (t1 - t0) > 1.5
        c.close()
    finally:
        signal_mod.signal(signal_mod.SIGCHLD, old)
    ls.close()
    return obs


def run_sim():
    from mc import env
    env.install_sim()
    from mc import sched as S
    box = {}

    def main():
        api = SimAPI()
        box["obs"] = scenarios(api)
        from mc import simos
        simos.reset_kernel()
        simos.reset_procs()
        box["obs"].update(fork_scenario(api, simos.sim_os))
        simos.reset_kernel()
        box["obs"].update(other_thread_scenario(api))
        simos.reset_kernel()
        simos.reset_procs()
        box["obs"].update(sigchld_scenario(api, simos.sim_os, simos.sim_signal, S.sim_time.time))
    sch = S.Scheduler((), sync_points=False, io_points=False, horizon=1000)
    sch.run(main)
    if sch.outcome != "done" or sch.threads[0].exc is not None:
        raise RuntimeError("sim run failed: %s %r" % (sch.outcome, sch.threads[0].exc))
    return box["obs"]


def run_real():
    from mc import env
    env.import_rpyc()
    api = RealAPI()
    try:
        obs = scenarios(api)
        obs.update(fork_scenario(api, os))
        obs.update(other_thread_scenario(api))
        import signal
        obs.update(sigchld_scenario(api, os, signal, real_time.monotonic))
        return obs
    finally:
        api.cleanup()


# differences that are known and irrelevant to how rpyc uses the calls
TOLERATED = {
}


def main():
    sim = run_sim()
    real = run_real()
    bad = []
    for k in sorted(set(sim) | set(real)):
        if sim.get(k) != real.get(k):
            if k in TOLERATED and (sim.get(k), real.get(k)) in TOLERATED[k]:
                continue
            bad.append((k, sim.get(k), real.get(k)))
    if bad:
        for k, s, r in bad:
            print("KERNEL-CONFORMANCE MISMATCH %s: sim=%r real=%r" % (k, s, r))
        return 1
    print("kernel conformance ok: %d observations agree between SimOS and the real kernel" % len(sim))
    return 0


if __name__ == "__main__":
    rc = main()
    sys.stdout.flush()
    os._exit(rc)
