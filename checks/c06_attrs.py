"""C06 -- attribute access by the peer follows the connection's policy, and only its own.

Part P (decision space, exhaustive): all 2^7 settings of {allow_safe_attrs, allow_exposed_attrs, allow_public_attrs,
allow_all_attrs, allow_getattr, allow_setattr, allow_delattr} x prefix in {"exposed_", "x_", ""} x names
{exposed-prefixed, other-prefixed, public, safe-listed, _single, __dunder__, __private, bytes-typed, int, None, tuple}
x object shapes {has name, has twin, both, neither} x operations {getattr, setattr, delattr, callattr,
cmp-by-operator-name, ctxexit, oldslicing}, plus objects with their own hooks, restricted() views and a Service.
Every case is a real request sent by a reference-codec raw peer to a real server-side Connection.  Oracle: an
independent reference policy function (written from the statement) yields the set of acceptable outcomes; which
attribute was actually touched is read from sentinel values / __dict__ deltas; a denied operation must leave the
object unchanged.
Part I (isolation, histories): every order of opening/closing <= 3 connections drawn from {default, classic
SlaveService, custom dict} (histories <= 5), probing every live connection after every step; DEFAULT_CONFIG
must stay untouched.
"""
import copy
import itertools

from mc import env
rpyc = env.install_sim()
from mc import runner, rawpeer as RP, refcodec as R          # noqa: E402
import rpyc as _rpyc                                          # noqa: E402
from rpyc.core import protocol                                # noqa: E402
from rpyc.core.service import SlaveService                    # noqa: E402
from rpyc.utils.helpers import restricted                     # noqa: E402

PID = "C06"
SWITCHES = ("allow_safe_attrs", "allow_exposed_attrs", "allow_public_attrs", "allow_all_attrs", "allow_getattr",
            "allow_setattr", "allow_delattr")
PREFIXES = ("exposed_", "x_", "")
SAFE = protocol.DEFAULT_CONFIG["safe_attrs"]
TEXT_NAMES = ("exposed_foo", "x_foo", "foo", "__add__", "_single", "__dund__", "__private", "next")
ODD_NAMES = (b"foo", b"_single", 5, None, ("foo",), 1.5)


class Target(object):
    """plain object whose attributes are set per case (instances keep everything in __dict__)"""
    pass


def sentinel(attr):
    return "V:" + attr


class Callee(object):
    def __init__(self, tag):
        self.tag = tag
        self.calls = 0

    def __call__(self, *a):
        self.calls += 1
        return "C:" + self.tag


def ref_decide(cfg, prefix, perm, name, has_name, has_twin):
    """the statement as a function: set of acceptable outcomes for a text name.
    outcomes: ('name',) access the attribute `name`; ('twin',) access prefix+name; 'AttributeError'"""
    if not cfg[perm]:
        return {"AttributeError"}
    allowed = (cfg["allow_all_attrs"] or
               (cfg["allow_exposed_attrs"] and name.startswith(prefix)) or
               (cfg["allow_safe_attrs"] and name in SAFE) or
               (cfg["allow_public_attrs"] and not name.startswith("_")))
    twin = cfg["allow_exposed_attrs"] and has_twin
    out = set()
    if allowed:
        out.add(("name",))
        if twin:
            out.add(("twin",))        # the statement is silent on which wins when both qualify
    elif twin:
        out.add(("twin",))
    else:
        out.add("AttributeError")
    return out


def build_target(name, prefix, has_name, has_twin, callable_):
    t = Target()
    mk = (lambda a: Callee(a)) if callable_ else sentinel
    if has_name:
        t.__dict__[name] = mk(name)
    if has_twin:
        t.__dict__[prefix + name] = mk(prefix + name)
    t.__dict__["unrelated"] = "U"
    return t


def outcome_of(kind, args):
    if kind == R.EXCEPTION:
        if args == R.EXC_STOP_ITERATION:
            return "StopIteration"
        return args[0][1]
    return "reply"


def run_cfg(cfg_bits, prefix):
    """all names x shapes x ops for one configuration on one connection"""
    cfg = dict(zip(SWITCHES, cfg_bits))
    config = dict(cfg, exposed_prefix=prefix)
    peer = RP.RawPeer(_rpyc.VoidService(), config)
    viol = []
    n = 0

    def bad(sig, text):
        if len(viol) < 6:
            viol.append((sig, "cfg=%r prefix=%r: %s" % (dict((k, v) for k, v in cfg.items() if v), prefix, text)))

    for name in TEXT_NAMES:
        for has_name, has_twin in itertools.product((True, False), repeat=2):
            # a twin of an already prefixed name (exposed_exposed_foo) is a legitimate case too
            for op in ("get", "set", "del", "call"):
                n += 1
                t = build_target(name, prefix, has_name, has_twin, op == "call")
                idp = peer.lend(t)
                before = dict(t.__dict__)
                perm = {"get": "allow_getattr", "set": "allow_setattr", "del": "allow_delattr", "call": "allow_getattr"}[op]
                want = ref_decide(cfg, prefix, perm, name, has_name, has_twin)
                if prefix == "":
                    # the twin of a name under the empty prefix is the name itself
                    if has_name != has_twin:
                        continue
                    want = set(("name",) if w == ("twin",) else w for w in want)
                if op == "get":
                    k, a = peer.request(4, RP.yours(idp), RP.val(name))
                elif op == "set":
                    k, a = peer.request(6, RP.yours(idp), RP.val(name), RP.val("NEW"))
                elif op == "del":
                    k, a = peer.request(5, RP.yours(idp), RP.val(name))
                else:
                    k, a = peer.request(8, RP.yours(idp), RP.val(name), RP.val(()), RP.val(()))
                oc = outcome_of(k, a)
                after = dict(t.__dict__)
                # what was touched?
                touched = None
                if op == "get" and oc == "reply":
                    v = a[1] if a[0] == R.L_VALUE else None
                    touched = ("name",) if v == sentinel(name) and has_name else (("twin",) if v == sentinel(prefix + name) and has_twin else ("other", v))
                elif op == "call" and oc == "reply":
                    v = a[1] if a[0] == R.L_VALUE else None
                    touched = ("name",) if v == "C:" + name and has_name else (("twin",) if v == "C:" + prefix + name and has_twin else ("other", v))
                elif op == "set" and oc == "reply":
                    ch = [kk for kk in after if after.get(kk) != before.get(kk)]
                    touched = ("name",) if ch == [name] else (("twin",) if ch == [prefix + name] else ("other", ch))
                elif op == "del" and oc == "reply":
                    ch = [kk for kk in before if kk not in after]
                    touched = ("name",) if ch == [name] else (("twin",) if ch == [prefix + name] else ("other", ch))
                if prefix == "" and touched == ("twin",):
                    touched = ("name",)
                if oc != "reply":
                    # denied or failed: no effect allowed
                    if op in ("set", "del") and after != before:
                        bad("denied-operation-had-an-effect:%s" % op, "name=%r shape=(%s,%s): %r -> %r" % (name, has_name, has_twin, before, after))
                    if op == "call":
                        for v in t.__dict__.values():
                            if isinstance(v, Callee) and v.calls:
                                bad("denied-call-ran-the-callable", "name=%r" % (name,))
                    if "AttributeError" in want:
                        if oc != "AttributeError":
                            bad("denied-with-%s-instead-of-AttributeError:%s" % (oc, op), "name=%r" % (name,))
                        continue
                    # access was permitted by the policy: failing is acceptable only because the attribute is missing
                    missing_ok = (("name",) in want and not has_name) or (("twin",) in want and not has_twin)
                    if op == "set":
                        missing_ok = False        # setting creates the attribute
                    if oc == "AttributeError" and missing_ok:
                        continue
                    bad("permitted-access-refused:%s:%s" % (op, oc), "name=%r shape=(%s,%s) acceptable=%r" % (name, has_name, has_twin, want))
                    continue
                if touched not in want:
                    kind = "policy-bypass" if "AttributeError" in want else "wrong-attribute-touched"
                    bad("%s:%s:name-class=%s" % (kind, op, name_class(name, prefix)),
                        "name=%r shape=(%s,%s): touched %r, acceptable %r" % (name, has_name, has_twin, touched, want))
    # names that are not text
    t = build_target("foo", prefix, True, True, False)
    t.__dict__["_single"] = sentinel("_single")
    idp = peer.lend(t)
    for nm in ODD_NAMES:
        for op, h in (("get", 4), ("set", 6), ("del", 5), ("call", 8)):
            n += 1
            before = dict(t.__dict__)
            extra = {"get": (), "set": (RP.val("NEW"),), "del": (), "call": (RP.val(()), RP.val(()))}[op]
            k, a = peer.request(h, RP.yours(idp), RP.val(nm), *extra)
            oc = outcome_of(k, a)
            if type(nm) is bytes:
                perm = {"get": "allow_getattr", "set": "allow_setattr", "del": "allow_delattr", "call": "allow_getattr"}[op]
                tn = nm.decode()
                want = ref_decide(cfg, prefix, perm, tn, True, (prefix + tn) in before)
                ok = oc == "TypeError" or (oc == "reply" and "AttributeError" not in want) or (oc == "AttributeError" and "AttributeError" in want) \
                    or (op == "call" and oc == "TypeError")
                if oc == "reply" and "AttributeError" in want:
                    bad("policy-bypass:%s:bytes-name" % op, "name=%r" % (nm,))
                elif not ok and not (op == "call" and oc in ("TypeError",)):
                    bad("bytes-name:%s:%s" % (op, oc), "name=%r acceptable=%r" % (nm, want))
                if oc != "reply" and dict(t.__dict__) != before:
                    bad("denied-operation-had-an-effect:%s" % op, "bytes name %r" % (nm,))
                t.__dict__.clear()
                t.__dict__.update(before)
            else:
                if oc != "TypeError":
                    bad("non-text-name-not-TypeError:%s:%s" % (op, oc), "name=%r" % (nm,))
                if dict(t.__dict__) != before:
                    bad("non-text-name-had-an-effect:%s" % op, "name=%r" % (nm,))
    # comparison by operator name goes through the same policy (on the type)
    class Cmp(object):
        def __eq__(self, o):
            return "EQ"

        def public_cmp(self, o):
            return "PUBLIC"

        def _secret_cmp(self, o):
            return "SECRET"
    Cmp.exposed_cmp = lambda self, o: "EXPOSED"
    setattr(Cmp, prefix + "tw", lambda self, o: "TWIN")
    c = Cmp()
    idp = peer.lend(c)
    for opname, has_twin in (("__eq__", False), ("public_cmp", False), ("_secret_cmp", False), ("__getattribute__", False),
                             ("__setattr__", False), ("__init__", False), ("__class__", False), ("tw", True), ("exposed_cmp", False)):
        n += 1
        k, a = peer.request(11, RP.yours(idp), RP.val("x"), RP.val(opname))
        oc = outcome_of(k, a)
        want = ref_decide(cfg, prefix, "allow_getattr", opname, hasattr(Cmp, opname), has_twin or hasattr(Cmp, prefix + opname))
        if oc == "reply" and "AttributeError" in want:
            bad("policy-bypass:cmp:op=%s" % opname, "comparison handler served operator %r -> %r" % (opname, a))
        elif oc != "reply" and oc != "AttributeError" and "AttributeError" in want:
            bad("denied-with-%s-instead-of-AttributeError:cmp" % oc, "op=%r" % (opname,))
    # ctxexit -> '__exit__', oldslicing -> attempt/fallback names: all via the policy
    class Ctx(object):
        def __init__(self):
            self.exits = 0

        def __exit__(self, *a):
            self.exits += 1
            return False

        def _hidden(self, *a):
            self.exits += 100
            return "HIDDEN"
    x = Ctx()
    idp = peer.lend(x)
    n += 1
    k, a = peer.request(19, RP.yours(idp), RP.val(None))
    want = ref_decide(cfg, prefix, "allow_getattr", "__exit__", True, False)
    if (outcome_of(k, a) == "reply") != ("AttributeError" not in want):
        bad("ctxexit-policy:%s" % outcome_of(k, a), "acceptable %r" % (want,))
    for attempt in ("_hidden",):
        n += 1
        k, a = peer.request(18, RP.yours(idp), RP.val(attempt), RP.val(attempt), RP.val(0), RP.val(1), RP.val(()))
        want = ref_decide(cfg, prefix, "allow_getattr", attempt, True, False)
        if outcome_of(k, a) == "reply" and "AttributeError" in want:
            bad("policy-bypass:oldslicing", "served %r" % (attempt,))
    peer.close()
    return n, viol


def name_class(name, prefix):
    if name.startswith("exposed_"):
        return "exposed-prefixed"
    if name in SAFE:
        return "safe-listed"
    if name.startswith("__"):
        return "dunder"
    if name.startswith("_"):
        return "underscore"
    return "public"


def run_cfg_chunk(items):
    env.silence_unraisable()
    n = 0
    viol = []
    for bits, prefix in items:
        nn, v = run_cfg(bits, prefix)
        n += nn
        viol.extend(v)
        if len(viol) > 8:
            break
    return n, viol


# ------------------------------------------------------------------ objects with their own hooks
def check_hooks():
    viol = []
    n = 0

    class Hooked(object):
        def __init__(self):
            self.log = []
            self.secret = "S"

        def _rpyc_getattr(self, name):
            self.log.append(("get", name))
            return "H:" + name

        def _rpyc_setattr(self, name, value):
            self.log.append(("set", name, value))

        def _rpyc_delattr(self, name):
            self.log.append(("del", name))

    for bits in itertools.product((True, False), repeat=len(SWITCHES)):
        cfg = dict(zip(SWITCHES, bits))
        peer = RP.RawPeer(_rpyc.VoidService(), cfg)
        h = Hooked()
        idp = peer.lend(h)
        for name in ("secret", "_x", "exposed_y"):
            n += 3
            k, a = peer.request(4, RP.yours(idp), RP.val(name))
            if (k, a) != (R.REPLY, RP.val("H:" + name)):
                viol.append(("own-getattr-hook-not-deciding", "cfg %r name %r -> %r" % (cfg, name, (k, a))))
            k, a = peer.request(6, RP.yours(idp), RP.val(name), RP.val(1))
            k2, a2 = peer.request(5, RP.yours(idp), RP.val(name))
            if k != R.REPLY or k2 != R.REPLY:
                viol.append(("own-set/del-hook-not-deciding", "cfg %r name %r" % (cfg, name)))
        if h.secret != "S" or len(h.log) != 9:
            viol.append(("own-hooks-bypassed", "log %r" % (h.log,)))
        # restricted view: exactly the listed names, whatever the configuration says
        class Real(object):
            pass
        real = Real()
        real.a, real.b, real._c = "A", "B", "C"
        rv = restricted(real, ["a"], ["b"])
        idp = peer.lend(rv)
        for name, wantget, wantset in (("a", True, False), ("b", False, True), ("_c", False, False), ("zz", False, False)):
            n += 2
            k, a = peer.request(4, RP.yours(idp), RP.val(name))
            got = (k == R.REPLY)
            if got != wantget:
                viol.append(("restricted-view-read:%s:%s" % (name, "allowed" if got else "refused"), "cfg %r" % (cfg,)))
            elif not got and outcome_of(k, a) != "AttributeError":
                viol.append(("restricted-view-refusal-not-AttributeError", outcome_of(k, a)))
            before = dict(real.__dict__)
            k, a = peer.request(6, RP.yours(idp), RP.val(name), RP.val("W"))
            got = (k == R.REPLY)
            if got != wantset:
                viol.append(("restricted-view-write:%s:%s" % (name, "allowed" if got else "refused"), "cfg %r" % (cfg,)))
            if not got and dict(real.__dict__) != before:
                viol.append(("restricted-view-refused-write-had-effect", name))
            real.__dict__.clear()
            real.__dict__.update(before)
        # an explicitly EMPTY write list means: nothing is writable (for every way of spelling empty)
        for empty in ((), [], set(), frozenset()):
            real2 = Real()
            real2.a = "A"
            rv2 = restricted(real2, ["a"], empty)
            idp = peer.lend(rv2)
            n += 2
            k, a = peer.request(6, RP.yours(idp), RP.val("a"), RP.val("W"))
            if k == R.REPLY or real2.a != "A":
                viol.append(("restricted-view-write:read-only-view-written:%s" % type(empty).__name__, "cfg %r" % (cfg,)))
            k, a = peer.request(4, RP.yours(idp), RP.val("a"))
            if k != R.REPLY:
                viol.append(("restricted-view-read:a:refused", "cfg %r" % (cfg,)))
            elif a != RP.val(real2.a):
                viol.append(("restricted-view-read:a:wrong-value", "cfg %r: %r" % (cfg, a)))
        # a Service denies set/del on itself whatever the configuration
        class Sv(_rpyc.Service):
            exposed_v = 1
        sv = Sv()
        idp = peer.lend(sv)
        n += 2
        k, a = peer.request(6, RP.yours(idp), RP.val("exposed_v"), RP.val(2))
        k2, a2 = peer.request(5, RP.yours(idp), RP.val("exposed_v"))
        if k == R.REPLY or k2 == R.REPLY or Sv.exposed_v != 1 or "exposed_v" in sv.__dict__ if hasattr(sv, "__dict__") else False:
            viol.append(("service-allowed-set-or-del-on-itself", "cfg %r" % (cfg,)))
        peer.close()
        if len(viol) > 6:
            break
    return n, viol


# ------------------------------------------------------------------ part I: isolation over histories
class Probe(object):
    def __init__(self):
        self.pub = "P"
        self._priv = "Q"
        self.exposed_e = "E"


# one caller-owned dict object handed to several connections (a caller may well reuse its settings): what each connection
# does with its configuration - e.g. the blanket permissions of a classic-mode service - must stay its own
SHARED = {"allow_public_attrs": True}
SHARED_COPY = dict(SHARED)
KINDS = {
    "default": (lambda: _rpyc.VoidService(), {}),
    "classic": (lambda: SlaveService(), {}),
    "custom": (lambda: _rpyc.VoidService(), {"allow_public_attrs": True, "allow_setattr": True}),
    "custom-shared-dict": (lambda: _rpyc.VoidService(), SHARED),
    "classic-shared-dict": (lambda: SlaveService(), SHARED),
}
# (getattr pub, getattr _priv, getattr e (twin exposed_e), setattr pub)
EXPECT = {"default": (False, False, True, False), "classic": (True, True, False, True), "custom": (True, False, True, True),
          "custom-shared-dict": (True, False, True, False), "classic-shared-dict": (True, True, False, True)}


def probe_conn(peer):
    p = Probe()
    idp = peer.lend(p)
    r = []
    for h, name, extra in ((4, "pub", ()), (4, "_priv", ()), (4, "e", ()), (6, "pub", (RP.val("N"),))):
        k, a = peer.request(h, RP.yours(idp), RP.val(name), *extra)
        r.append(k == R.REPLY)
    return tuple(r)


def isolation_histories(maxlen):
    """sequences of ('open', kind) / ('close', index of a live connection)"""
    out = []

    def rec(hist, live, total):
        if hist:
            out.append(tuple(hist))
        if len(hist) >= maxlen:
            return
        if total < 3 or True:
            if len(live) < 3:
                for kd in KINDS:
                    rec(hist + [("open", kd)], live + [kd], total + 1)
        for i in range(len(live)):
            rec(hist + [("close", i)], live[:i] + live[i + 1:], total)
    rec([], [], 0)
    return out


def run_isolation(hists):
    env.silence_unraisable()
    viol = []
    snapshot = copy.deepcopy(dict((k, v) for k, v in protocol.DEFAULT_CONFIG.items()))
    for h in hists:
        live = []
        for ev in h:
            if ev[0] == "open":
                mk, cfg = KINDS[ev[1]]
                live.append((ev[1], RP.RawPeer(mk(), cfg)))
            else:
                kd, peer = live.pop(ev[1])
                peer.conn.close()
            for kd, peer in live:
                got = probe_conn(peer)
                if got != EXPECT[kd]:
                    viol.append(("connection-policy-changed-by-another-connection:%s" % kd,
                                 "history %r: %s connection answers %r, its own policy says %r" % (list(h), kd, got, EXPECT[kd])))
            if SHARED != SHARED_COPY:
                viol.append(("callers-configuration-dict-mutated", "history %r: %r" % (list(h), SHARED)))
                SHARED.clear()
                SHARED.update(SHARED_COPY)
            if dict(protocol.DEFAULT_CONFIG) != snapshot:
                viol.append(("default-configuration-mutated", "history %r" % (list(h),)))
                protocol.DEFAULT_CONFIG.clear()
                protocol.DEFAULT_CONFIG.update(copy.deepcopy(snapshot))
            if viol:
                break
        for kd, peer in live:
            peer.close()
        if len(viol) > 3:
            break
    return len(hists), viol


def chunks(xs, n):
    return [xs[i:i + n] for i in range(0, len(xs), n)]


def replay(rep):
    env.silence_unraisable()
    if rep["part"] == "policy":
        a = run_cfg(tuple(rep["bits"]), rep["prefix"])[1]
        b = run_cfg(tuple(rep["bits"]), rep["prefix"])[1]
    elif rep["part"] == "hooks":
        a, b = check_hooks()[1], check_hooks()[1]
    else:
        h = [tuple(e) for e in rep["history"]]
        a, b = run_isolation([h])[1], run_isolation([h])[1]
    if [x[0] for x in a] != [x[0] for x in b]:
        print("REPLAY-DIVERGENCE")
        return 2
    print("replayed -> %r" % (a[:3],))
    return 1 if a else 0


def main(tier, replay_obj=None):
    if replay_obj is not None:
        return replay(replay_obj)
    env.silence_unraisable()
    res = runner.Result(PID, "exploration", tier,
                        "P: all 128 switch settings x 3 prefixes x 8 text names x 4 object shapes x {get,set,del,call} + 6 non-text names "
                        "+ comparison/ctxexit/oldslicing routes, each a real request from a raw peer, judged by an independent reference "
                        "policy function; hooks/restricted/Service objects under all 128 settings; I: all open/close histories (<= %d "
                        "events, <= 3 live connections of 3 kinds) with every live connection probed after every step; distinct = "
                        "configurations x prefixes + histories" % (4 if tier == "quick" else 5))
    items = [(bits, p) for bits in itertools.product((True, False), repeat=len(SWITCHES)) for p in PREFIXES]
    outs = runner.pmap(run_cfg_chunk, [(c,) for c in chunks(items, 8)])
    n = 0
    for (nn, viol), c in zip(outs, chunks(items, 8)):
        n += nn
        for sig, text in viol:
            res.violation(sig, text, {"part": "policy", "bits": list(c[0][0]), "prefix": c[0][1]})
    res.evaluations += n
    res.distinct_count_extra += len(items)
    res.parts["policy"] = {"requests": n, "configurations": len(items)}
    nh, viol = check_hooks()
    res.evaluations += nh
    res.parts["hooks"] = {"requests": nh}
    for sig, text in viol:
        res.violation(sig, text, {"part": "hooks"})
    hs = isolation_histories(4 if tier == "quick" else 5)
    outs = runner.pmap(run_isolation, [(c,) for c in chunks(hs, 50)])
    m = 0
    for nn, viol in outs:
        m += nn
        for sig, text in viol:
            hist = eval(text.split("history ")[1].split("]:")[0] + "]") if "history [" in text else []
            res.violation(sig, text, {"part": "isolation", "history": [list(e) for e in hist]})
    res.evaluations += m
    res.distinct_count_extra += m
    res.parts["isolation"] = {"histories": m}
    res.add_sample({"policy_case": {"allow_exposed_attrs": True, "prefix": "x_", "name": "foo", "shape": "twin only", "op": "set"}})
    res.add_sample({"isolation_history": [["open", "default"], ["open", "classic"], ["close", 1], ["open", "custom"]]})
    res.assumptions = ["where a name is allowed AND an exposed twin exists, either target is accepted (the statement is silent)",
                       "bytes-typed names: TypeError or treatment as the decoded text are both accepted",
                       "the twin rule needs allow_exposed_attrs (the prefix is meaningless otherwise)"]
    return res.finish()
