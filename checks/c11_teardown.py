"""C11 -- every way a connection can end leaves both sides clean, once, and nobody hanging.

Real client and server Connections over real SocketStreams over a simulated socket pair (mc/simos.py), under
the E1 scheduler with a server thread in serve_all().  For each workload a fault-free run records the byte
streams of both directions; then ONE fault per run: the transport fails at a chosen byte offset of a chosen
direction, on the read side (EOF / ECONNRESET: the reader gets exactly `offset` bytes, then the failure - so
mid-header, mid-body and at every frame boundary) or on the write side (the writer transfers `offset` bytes,
the next send fails with EPIPE / ECONNRESET / EBADF).  Offsets: every byte (thorough) or every header byte,
the first/last bytes of each frame and every 29th body byte (quick).  Plus: every interleaving (at
transport-call granularity, <= 2 preemptions) of the two sides' close() calls.
Oracle, after the threads end and one settle step (a further serve(0), i.e. what any next use does):
both sides closed; each disconnect hook ran exactly once; owner tables empty and lent objects collectable;
close() again changes nothing; every request ended with its correct value, EOFError or its own time-out;
no deadlock, no thread left blocked.
"""
import gc
import weakref

from mc import env
rpyc = env.install_sim()
from mc import sched as S, simos, runner, refcodec as R, explore, canon      # noqa: E402
import rpyc as _rpyc                                                   # noqa: E402
from rpyc.core.channel import Channel                                  # noqa: E402
from rpyc.core.stream import SocketStream                              # noqa: E402
from rpyc.core.async_ import AsyncResultTimeout                        # noqa: E402
from rpyc.utils.helpers import BgServingThread                         # noqa: E402

simos.install(("stream", "lib"))
PID = "C11"


class Obj(object):
    def __init__(self, tag):
        self.tag = tag

    def exposed_tag(self):
        return self.tag


class Svc(_rpyc.Service):
    def __init__(self, name):
        self.name = name
        self.connects = 0
        self.disconnects = 0
        self.held = []
        self.lent = Obj(name + "-lent")

    def on_connect(self, conn):
        self.connects += 1

    def on_disconnect(self, conn):
        self.disconnects += 1

    def exposed_echo(self, x):
        return ("echo", x)

    def exposed_nested(self, cb, depth):
        if depth <= 0:
            return ("bottom",)
        return ("lvl", depth, cb(self.exposed_nested, depth - 1))

    def exposed_hold(self, x):
        self.held.append(x)
        return len(self.held)

    def exposed_get_lent(self):
        return self.lent

    def exposed_slow(self, d, x):
        S.sim_time.sleep(d)
        return ("slow", x)

    def exposed_close_me(self):
        self.conn_ref().close()
        return "closed"


class Ctx(object):
    def __init__(self, cut=None, timeout=30):
        k = simos.reset_kernel()
        self.a, self.b = simos.socketpair()
        self.a._of.capture = bytearray()
        self.b._of.capture = bytearray()
        if cut is not None:
            direction, side, off, kind = cut
            wr, rd = (self.a, self.b) if direction == "c2s" else (self.b, self.a)
            if side == "read":
                rd._of.cut_read = (off, kind)
            else:
                wr._of.cut_write = (off, kind)
        self.csvc, self.ssvc = Svc("C"), Svc("S")
        cfg = {"sync_request_timeout": timeout}
        self.sconn = self.ssvc._connect(Channel(SocketStream(self.b)), cfg)
        self.cconn = self.csvc._connect(Channel(SocketStream(self.a)), cfg)
        self.ssvc.conn_ref = weakref.ref(self.sconn)
        self.csvc.conn_ref = weakref.ref(self.cconn)
        self.out = []          # (request label, outcome)
        self.early = []        # moments at which the client reported closed before its cleanup had happened
        self.concurrent = False
        self.windowed = False
        self.threads = []

    def observe(self, where):
        """"its disconnect hook has run exactly once by the time it reports closed" and what it held is released: looked at
        by the thread that uses the connection, between its own operations (so never in the middle of its own close())"""
        c = self.cconn
        if self.concurrent:
            return      # another thread of this side may be in the middle of close() right now: looked at again afterwards
        if c.closed and (self.csvc.disconnects != 1 or c._local_objects._dict):
            self.early.append((where, self.csvc.disconnects, len(c._local_objects._dict)))

    def req(self, label, fn, expect):
        try:
            return self._req(label, fn, expect)
        finally:
            self.observe(label)

    def _req(self, label, fn, expect):
        try:
            v = fn()
            self.out.append((label, "value", v == expect if expect is not None else True, repr(v)[:80]))
        except S.SimAbort:
            raise
        except EOFError:
            self.out.append((label, "EOFError", True, ""))
        except AsyncResultTimeout:
            self.out.append((label, "timeout", True, ""))
        except BaseException as ex:   # noqa
            self.out.append((label, "exc:" + type(ex).__name__, False, repr(ex)[:120]))


# ------------------------------------------------------------------ workloads (run by the client's main thread)
def wl_sync(x):
    c = x.cconn
    x.req("root", lambda: c.root.echo(1), ("echo", 1))
    x.req("second", lambda: c.root.echo((2, "b")), ("echo", (2, "b")))


def wl_async(x):
    c = x.cconn
    box = {}

    def go():
        a = _rpyc.async_(c.root.echo)
        r1, r2 = a(1), a(2)
        box["r"] = (r1, r2)
        return (r1.value, r2.value)
    x.req("async-pair", go, (("echo", 1), ("echo", 2)))


def wl_nested(x):
    c = x.cconn
    x.req("nested", lambda: c.root.nested(x.csvc.exposed_nested, 2), ("lvl", 2, ("lvl", 1, ("bottom",))))
    x.req("after", lambda: c.root.echo(3), ("echo", 3))


def wl_refs(x):
    c = x.cconn
    mine = Obj("mine")
    x.mine_ref = weakref.ref(mine)
    x.req("hold", lambda: c.root.hold(mine), 1)
    box = {}

    def get():
        box["p"] = c.root.get_lent()
        return box["p"].tag()
    x.req("get", get, "S-lent")
    if "p" in box:
        x.req("use", lambda: box["p"].tag(), "S-lent")
    del mine
    box.clear()


def wl_client_close(x):
    c = x.cconn
    x.req("before", lambda: c.root.echo(1), ("echo", 1))
    x.req("close", lambda: c.close(), None)
    x.req("after-close", lambda: c.root.echo(2), "never")


def wl_server_close(x):
    c = x.cconn
    x.req("before", lambda: c.root.echo(1), ("echo", 1))
    x.req("close-me", lambda: c.root.close_me(), "closed")
    x.req("after", lambda: c.root.echo(2), "never")


def wl_two_threads_no_timeout(x):
    """two client threads share the connection, requests have NO time-out: nobody may be left parked"""
    c = x.cconn
    x.req("root", lambda: c.root.echo(0), ("echo", 0))
    try:
        root = c.root
    except EOFError:
        return

    def other():
        x.req("t2", lambda: root.echo("two"), ("echo", "two"))
    t = S.SimThread(target=other, name="client2")
    x.concurrent = True
    if x.windowed:
        S.current_sched().armed = True       # schedules are enumerated from here ...
    t.start()
    # the handler takes one virtual second: meanwhile client2 issues its request and parks behind this thread,
    # which holds the receive lock while it waits for its reply
    x.req("t1", lambda: root.slow(1.0, "one"), ("slow", "one"))
    t.join()
    if x.windowed:
        S.current_sched().armed = False      # ... to here
    x.concurrent = False
    x.observe("after-join")
    del root


def wl_bg(x):
    c = x.cconn
    x.concurrent = True
    bg = BgServingThread(c, callback=lambda: None)
    x.req("bg-1", lambda: c.root.echo(1), ("echo", 1))
    x.req("bg-2", lambda: c.root.echo(2), ("echo", 2))
    try:
        bg.stop()
    except AssertionError:
        pass
    x.concurrent = False


def wl_before_closed(x):
    """close() with a before_closed hook that talks to the peer: a failure inside the hook re-enters close()"""
    c = x.cconn
    x.req("before", lambda: c.root.echo(1), ("echo", 1))
    calls = []

    def hook(root):
        calls.append(1)
        return root.echo("bye")
    c._config["before_closed"] = hook
    x.req("close", lambda: c.close(), None)
    x.req("after-close", lambda: c.root.echo(2), "never")


def wl_close_under_waiter(x):
    """one client thread waits (no time-out) for a reply the peer will take long to produce; another thread of the same side
    closes the connection: the waiter fails with EOFError at once, it does not sit out the peer's handler"""
    c = x.cconn
    x.req("root", lambda: c.root.echo(0), ("echo", 0))
    try:
        root = c.root
    except EOFError:
        return
    times = {}

    def other():
        x.req("t2", lambda: root.slow(20.0, "late"), "never")
        times["t2_end"] = S.sim_time.time()
    t = S.SimThread(target=other, name="client2")
    x.concurrent = True
    t.start()
    S.sim_time.sleep(0.5)
    times["close"] = S.sim_time.time()
    x.req("close", lambda: c.close(), None)
    t.join(100)
    x.concurrent = False
    if "t2_end" in times and times["t2_end"] - times["close"] > 2.0:
        x.out.append(("t2", "exc:blocked-%.0fs-after-local-close" % (times["t2_end"] - times["close"]), False, "waiter returned %.1f s after close()" % (
            times["t2_end"] - times["close"])))
    x.observe("after-join")


def wl_before_closed_raises(x):
    """close() whose goodbye step fails with something other than EOFError (the before_closed hook calls a peer method that
    raises): with close_catchall off the error reaches the caller - and the connection is closed and clean all the same"""
    c = x.cconn
    mine = [1, 2]
    x.req("lend", lambda: c.root.hold(mine), 1)

    def hook(root):
        return root.nested(None, 1)          # the peer calls None(...): TypeError over there, raised here

    c._config["before_closed"] = hook

    def do_close():
        try:
            c.close()
            return "no-error"
        except TypeError:
            return "raised"
    x.req("close", do_close, None)      # with a fault injected the goodbye step may end in EOFError instead, which close() swallows
    x.req("after-close", lambda: c.root.echo(2), "never")


WORKLOADS = {"before-closed-hook": (wl_before_closed, 30), "before-closed-hook-raises": (wl_before_closed_raises, 30),
             "close-under-waiter": (wl_close_under_waiter, None), "sync": (wl_sync, 30), "async": (wl_async, 30), "nested": (wl_nested, 30), "refs": (wl_refs, 30),
             "client-close": (wl_client_close, 30), "server-close": (wl_server_close, 30),
             "two-threads-no-timeout": (wl_two_threads_no_timeout, None), "bg-thread": (wl_bg, 30)}


def run(wname, cut, choices=(), state_fn=None, cut_fn=None, sync_points=False, windowed=False):
    wl, timeout = WORKLOADS[wname]
    gc.disable()
    x = Ctx(cut, timeout)
    x.windowed = windowed
    box = {}

    def server():
        try:
            x.sconn.serve_all()
        except EOFError:
            pass
        except Exception as ex:   # noqa
            box["server_exc"] = repr(ex)

    def main():
        s = S.current_sched()
        if windowed:
            s.armed = False
        st = S.SimThread(target=server, name="server")
        st.start()
        wl(x)
        x.observe("after-workload")
        # make sure the server side learns the client is done (a client normally closes or goes away)
        if wname not in ("client-close",):
            try:
                x.cconn.close()
            except Exception as ex:    # noqa
                box["close_exc"] = repr(ex)
        st.join(2000)
        box["server_alive"] = st.is_alive()
        # settle step on both sides
        for name, conn in (("c", x.cconn), ("s", x.sconn)):
            try:
                conn.serve(0)
            except EOFError:
                pass
            except Exception as ex:   # noqa
                box["settle_%s" % name] = repr(ex)
        box["closed"] = (x.cconn.closed, x.sconn.closed)
        box["hooks"] = (x.csvc.disconnects, x.ssvc.disconnects)
        box["tables"] = (len(x.cconn._local_objects._dict), len(x.sconn._local_objects._dict))
        for conn in (x.cconn, x.sconn):
            try:
                conn.close()
            except Exception as ex:   # noqa
                box["second_close"] = repr(ex)
        box["hooks2"] = (x.csvc.disconnects, x.ssvc.disconnects)
        box["done"] = True

    sch = S.Scheduler(choices, sync_points=sync_points, io_points=sync_points, horizon=5000, max_steps=300000,
                      state_fn=state_fn, cut_fn=cut_fn)
    sch.run(main)
    viol = []
    if sch.outcome == "cut":
        return sch, x, viol, box
    if sch.outcome != "done" or not box.get("done"):
        blocked = [(t.name, t.block_kind) for t in sch.threads if t.state == "blocked"]
        viol.append(("hang:%s:%s" % (sch.outcome, ",".join(sorted(set("%s@%s" % b for b in blocked)))[:120]),
                     "threads %r exc=%r" % (blocked, sch.threads[0].exc)))
        return sch, x, viol, box
    for t in sch.threads:
        if t.exc is not None and t.name != "SimThread":
            viol.append(("thread-raised:%s:%s" % (t.name, type(t.exc).__name__), repr(t.exc)))
    if box.get("server_alive"):
        viol.append(("server-thread-never-ended", ""))
    for k in ("server_exc", "settle_c", "settle_s", "second_close"):
        if k in box:
            viol.append(("%s:%s" % (k, box[k].split("(")[0]), box[k]))
    if box["closed"] != (True, True):
        viol.append(("side-not-closed:client=%s,server=%s" % box["closed"], ""))
    h = box["hooks"]
    if h != (1, 1):
        viol.append(("disconnect-hook-count:client=%d,server=%d" % h, ""))
    if box["hooks2"] != h:
        viol.append(("second-close-ran-hook-again", repr(box["hooks2"])))
    if box["tables"] != (0, 0):
        viol.append(("tables-not-released:%r" % (box["tables"],), ""))
    if x.early:
        viol.append(("reports-closed-before-hook-and-release", "client reported closed at %r (hook runs, objects held)" % (x.early[:3],)))
    for label, kind, ok, text in x.out:
        if kind.startswith("exc:"):
            viol.append(("request-failed-with-%s" % kind[4:], "%s: %s" % (label, text)))
        elif kind == "value" and not ok:
            viol.append(("request-returned-value-the-peer-did-not-send", "%s: %s" % (label, text)))
    # lent objects collectable once the harness lets go
    mr = getattr(x, "mine_ref", None)
    x.ssvc.held[:] = []
    if mr is not None and mr() is not None:
        # exception tracebacks form ordinary reference cycles (frame <-> exception); those are the collector's job
        gc.collect()
    if mr is not None and mr() is not None:
        viol.append(("lent-object-still-referenced-after-close", ""))
    return sch, x, viol, box


def frames(buf):
    """[(start, length)] of the frames in a captured byte stream"""
    out = []
    pos = 0
    buf = bytes(buf)
    while pos + 5 <= len(buf):
        n = int.from_bytes(buf[pos:pos + 4], "big")
        out.append((pos, 5 + n + 1))
        pos += 5 + n + 1
    return out


def offsets(buf, every):
    total = len(buf)
    if every == 1:
        return list(range(0, total + 1))
    offs = set([0, total])
    for start, ln in frames(buf):
        for d in range(0, 14):
            offs.add(start + d)
        for d in range(1, 5):
            offs.add(start + ln - d)
        offs.add(start + ln)
        for d in range(14, ln - 4, every):
            offs.add(start + d)
    return sorted(o for o in offs if 0 <= o <= total)


def fault_points(wname, every):
    sch, x, viol, box = run(wname, None)
    base = (viol, [(o[0], o[1]) for o in x.out])
    pts = []
    for direction, sock in (("c2s", x.a), ("s2c", x.b)):
        buf = bytes(sock._of.capture)
        for off in offsets(buf, every):
            for kind in ("eof", "ECONNRESET"):
                pts.append((direction, "read", off, kind))
            for kind in ("EPIPE", "ECONNRESET", "EBADF"):
                pts.append((direction, "write", off, kind))
    return base, pts, (len(x.a._of.capture), len(x.b._of.capture))


def run_points(wname, pts):
    env.silence_unraisable()
    out = []
    ocs = set()
    for cut in pts:
        sch, x, viol, box = run(wname, cut)
        ocs.add(tuple((o[0], o[1]) for o in x.out))
        if viol:
            out.append((cut, viol))
            if len(out) >= 4:
                break
    return len(pts), out, ocs


# ------------------------------------------------------------------ close racing close
def close_race(choices, want_state, cut_fn):
    """both sides call close() at 'the same time': all interleavings at transport-call granularity"""
    gc.disable()
    x = Ctx(None, 30)
    box = {}

    def server_close():
        try:
            x.sconn.close()
        except Exception as ex:   # noqa
            box["s_exc"] = repr(ex)

    def main():
        st = S.SimThread(target=server_close, name="server-close")
        st.start()
        try:
            x.cconn.close()
        except Exception as ex:    # noqa
            box["c_exc"] = repr(ex)
        st.join(1000)
        for conn in (x.cconn, x.sconn):
            try:
                conn.serve(0)
            except EOFError:
                pass
            except Exception as ex:   # noqa
                box["settle"] = repr(ex)
        box["closed"] = (x.cconn.closed, x.sconn.closed)
        box["hooks"] = (x.csvc.disconnects, x.ssvc.disconnects)
        for conn in (x.cconn, x.sconn):
            conn.close()
        box["hooks2"] = (x.csvc.disconnects, x.ssvc.disconnects)
        box["done"] = True

    from mc import canon
    roots = [x.cconn, x.sconn, x.a._of, x.b._of, x.csvc, x.ssvc]

    def state_fn(s):
        return canon.state_key(s, roots, canon.DEFAULT_PREFIXES)

    sch = S.Scheduler(choices, sync_points=True, io_points=True, horizon=1000, max_steps=100000,
                      state_fn=state_fn if want_state else None, cut_fn=cut_fn)
    sch.run(main)
    viol = []
    if sch.outcome == "cut":
        return sch, {"violations": [], "outcome_key": None}
    if sch.outcome != "done" or not box.get("done"):
        viol.append(("close-race:hang:%s" % sch.outcome, repr(sch.deadlock_info)))
    else:
        for k in ("s_exc", "c_exc", "settle"):
            if k in box:
                viol.append(("close-race:%s:%s" % (k, box[k].split("(")[0]), box[k]))
        if box["closed"] != (True, True):
            viol.append(("close-race:side-not-closed:%r" % (box["closed"],), ""))
        if box["hooks"] != (1, 1) or box["hooks2"] != (1, 1):
            viol.append(("close-race:disconnect-hook-count:%r/%r" % (box["hooks"], box["hooks2"]), ""))
    return sch, {"violations": viol, "outcome_key": (sch.outcome, box.get("closed"), box.get("hooks"))}


def close_vs_serving(choices, want_state, cut_fn):
    """the client closes while another thread of the same side is serving the connection (and the peer answers the
    close by closing its end): the close must still happen exactly once"""
    gc.disable()
    x = Ctx(None, 30)
    box = {}

    def server():
        try:
            x.sconn.serve_all()
        except EOFError:
            pass
        except Exception as ex:   # noqa
            box["server_exc"] = repr(ex)

    def client_server():
        try:
            while not x.cconn.closed:
                x.cconn.serve(0.1)
        except EOFError:
            pass
        except Exception as ex:   # noqa
            box["client_srv_exc"] = repr(ex)

    def main():
        st = S.SimThread(target=server, name="server")
        st.start()
        ct = S.SimThread(target=client_server, name="client-serving")
        ct.start()
        S.sim_time.sleep(0.05)
        try:
            x.cconn.close()
        except Exception as ex:    # noqa
            box["c_exc"] = repr(ex)
        st.join(500)
        ct.join(500)
        box["alive"] = (st.is_alive(), ct.is_alive())
        for conn in (x.cconn, x.sconn):
            try:
                conn.serve(0)
            except EOFError:
                pass
            except Exception as ex:   # noqa
                box["settle"] = repr(ex)
        box["closed"] = (x.cconn.closed, x.sconn.closed)
        box["hooks"] = (x.csvc.disconnects, x.ssvc.disconnects)
        box["done"] = True

    from mc import canon
    roots = [x.cconn, x.sconn, x.a._of, x.b._of, x.csvc, x.ssvc]

    def state_fn(s):
        return canon.state_key(s, roots, canon.DEFAULT_PREFIXES)

    sch = S.Scheduler(choices, sync_points=True, io_points=True, horizon=2000, max_steps=200000,
                      state_fn=state_fn if want_state else None, cut_fn=cut_fn)
    sch.run(main)
    viol = []
    if sch.outcome == "cut":
        return sch, {"violations": [], "outcome_key": None}
    if sch.outcome != "done" or not box.get("done"):
        viol.append(("close-vs-serving:hang:%s" % sch.outcome, repr(sch.deadlock_info)))
    else:
        for k in ("server_exc", "client_srv_exc", "c_exc", "settle"):
            if k in box:
                viol.append(("close-vs-serving:%s:%s" % (k, box[k].split("(")[0]), box[k]))
        if box["alive"] != (False, False):
            viol.append(("close-vs-serving:thread-never-ended:%r" % (box["alive"],), ""))
        if box["closed"] != (True, True):
            viol.append(("close-vs-serving:side-not-closed:%r" % (box["closed"],), ""))
        if box["hooks"] != (1, 1):
            viol.append(("close-vs-serving:disconnect-hook-count:%r" % (box["hooks"],), ""))
    return sch, {"violations": viol, "outcome_key": (sch.outcome, box.get("closed"), box.get("hooks"))}


def eof_while_parking(off, kind):
    """two client threads share the connection (no time-outs); the stream ends at byte `off` of the server's answers while
    one thread owns the receive lock and the other is on its way to park behind it: on every schedule nobody is left parked"""
    def run_fn(choices, want_state, cut_fn):
        def state_fn(s):
            return canon.state_key(s, [], canon.DEFAULT_PREFIXES)
        sch, x, viol, box = run("two-threads-no-timeout", ("s2c", "read", off, kind), choices,
                                state_fn if want_state else None, cut_fn, sync_points=True, windowed=True)
        ok = (sch.outcome, tuple((o[0], o[1]) for o in x.out), box.get("closed"), box.get("hooks"))
        return sch, {"violations": viol, "outcome_key": ok}
    return run_fn


def parking_cuts():
    sch, x, viol, box = run("two-threads-no-timeout", None)
    fr = frames(bytes(x.b._of.capture))
    # the last answers (those of the two concurrent requests): at their first byte and inside their header
    return [(st + d) for st, ln in fr[-2:] for d in (0, 3)]


def real_pipe_cases():
    """PipeStream over REAL kernel pipes (what connect_pipes / connect_subproc use): the peer's end goes away while this side
    is idle - the kernel then reports a hang-up, possibly WITHOUT 'readable' - and the next serve() must meet the end of the
    stream, close the side, run the hook once; a pending request must fail with EOFError"""
    import os as _os
    from rpyc.core.stream import PipeStream
    viol = []
    n = 0
    for how in ("peer-closes-its-stream", "peer-closes-only-its-writing-end"):
        for pending in (False, True):
            n += 1
            r1, w1 = _os.pipe()
            r2, w2 = _os.pipe()
            fa = (_os.fdopen(r1, "rb", 0), _os.fdopen(w2, "wb", 0))
            fb = (_os.fdopen(r2, "rb", 0), _os.fdopen(w1, "wb", 0))
            svc = Svc("P")
            conn = svc._connect(Channel(PipeStream(fa[0], fa[1])), {"sync_request_timeout": 2})
            peer = PipeStream(fb[0], fb[1])
            res = conn.async_request(1, "x") if pending else None      # a ping nobody will answer
            if how == "peer-closes-its-stream":
                peer.close()
            else:
                fb[1].close()
            outcome = []
            for _ in range(5):
                try:
                    conn.serve(0.2)
                    outcome.append("returned")
                except EOFError:
                    outcome.append("EOFError")
                    break
                except Exception as ex:      # noqa
                    outcome.append(type(ex).__name__)
                    break
            tag = "%s:%s" % (how, "pending-request" if pending else "idle")
            if outcome[-1:] != ["EOFError"] or not conn.closed or svc.disconnects != 1:
                viol.append(("real-pipe:end-of-stream-not-met:%s" % tag, "serve() -> %r, closed=%s, hook ran %d times" % (outcome, conn.closed, svc.disconnects)))
            elif pending:
                try:
                    res.wait()
                    viol.append(("real-pipe:pending-request-did-not-fail:%s" % tag, ""))
                except EOFError:
                    pass
                except Exception as ex:     # noqa
                    viol.append(("real-pipe:pending-request-failed-with-%s:%s" % (type(ex).__name__, tag), ""))
            for f in fa + fb:
                try:
                    f.close()
                except Exception:
                    pass
            try:
                conn.close()
            except Exception:
                pass
    return n, viol


def chunks(xs, n):
    return [xs[i:i + n] for i in range(0, len(xs), n)]


def replay(rep):
    if str(rep.get("part", "")).startswith("eof-while-parking/"):
        env.silence_unraisable()
        off = int(rep["part"].split("@")[1])
        a = eof_while_parking(off, "eof")(rep["choices"], False, None)[1]["violations"]
        b = eof_while_parking(off, "eof")(rep["choices"], False, None)[1]["violations"]
        if [v[0] for v in a] != [v[0] for v in b]:
            print("REPLAY-DIVERGENCE", a, b)
            return 2
        print("replayed -> %r" % (a[:3],))
        return 1 if a else 0
    env.silence_unraisable()
    outs = []
    for _ in range(2):
        if rep.get("part", "").startswith("close-vs-serving"):
            sch, obs = close_vs_serving(rep["choices"], False, None)
            outs.append([v[0] for v in obs["violations"]])
        elif rep.get("part", "").startswith("close-race"):
            sch, obs = close_race(rep["choices"], False, None)
            outs.append([v[0] for v in obs["violations"]])
        else:
            cut = tuple(rep["cut"]) if rep.get("cut") else None
            sch, x, viol, box = run(rep["workload"], cut)
            outs.append([v[0] for v in viol] + [repr(x.out)])
    if outs[0] != outs[1]:
        print("REPLAY-DIVERGENCE", outs)
        return 2
    print("replayed %r -> %r" % (rep, outs[0]))
    return 1 if [o for o in outs[0] if not o.startswith("[")] else 0


def main(tier, replay_obj=None):
    if replay_obj is not None:
        return replay(replay_obj)
    env.silence_unraisable()
    every = 29 if tier == "quick" else 1
    res = runner.Result(PID, "fault_enumeration", tier,
                        "8 workloads (sync, async, nested callbacks, references both ways, client close, server close, two client "
                        "threads without time-outs, background serving thread) x one transport fault per run at a byte offset of either "
                        "direction (read side: EOF/ECONNRESET after exactly that many bytes; write side: EPIPE/ECONNRESET/EBADF after that "
                        "many bytes), offsets = %s; plus all interleavings of close() racing close(); distinct = distinct vectors of request "
                        "outcomes" % ("every byte" if every == 1 else "all header bytes, frame edges and every %dth body byte" % every))
    ocs_all = set()
    for wname in WORKLOADS:
        base, pts, sizes = fault_points(wname, every)
        if base[0]:
            for sig, text in base[0]:
                res.violation("fault-free:" + sig, "%s: %s" % (wname, text), {"workload": wname, "cut": None})
        outs = runner.pmap(run_points, [(wname, c) for c in chunks(pts, 100)])
        n = 0
        for nn, bad, ocs in outs:
            n += nn
            ocs_all |= set((wname, o) for o in ocs)
            for cut, viol in bad:
                for sig, text in viol:
                    res.violation(sig, "%s cut=%r: %s" % (wname, cut, text), {"workload": wname, "cut": list(cut)})
        res.evaluations += n + 1
        res.parts[wname] = {"fault_points": n, "bytes_c2s": sizes[0], "bytes_s2c": sizes[1]}
    for o in ocs_all:
        res.nontrivial(o)
    res.add_sample({"workload": "nested", "cut": ["s2c", "read", 7, "eof"]})
    res.add_sample({"workload": "two-threads-no-timeout", "cut": ["s2c", "write", 0, "EPIPE"]})
    n, viol = real_pipe_cases()
    res.evaluations += n
    res.parts["real-pipes"] = {"cases": n}
    for sig, text in viol:
        res.violation(sig, text, {"part": "real-pipes"})
    ex = explore.Explorer(close_race, bound=2, stop_on_violation=True, max_seconds=120)
    ex.explore()
    res.add_explorer("close-race/pb2", ex)
    res.bounds["close-race"] = ex.stats.bound_completed
    res.info["close_race_states"] = ex.stats.states
    ex2 = explore.ParallelExplorer(close_vs_serving, bound=2 if tier == "quick" else 3, stop_on_violation=True,
                                   max_seconds=150 if tier == "quick" else 1500)
    ex2.explore()
    res.add_explorer("close-vs-serving/pb%d" % (2 if tier == "quick" else 3), ex2)
    res.bounds["close-vs-serving"] = ex2.stats.bound_completed
    # thorough only: the space is large (three threads, every lock/condition/transport step inside the window); the lost
    # wake-up this looks for is also what C13/C14 explore with a reduced environment
    for off in (parking_cuts()[::2] if tier == "thorough" else ()):
        if res.violations:
            break
        ex3 = explore.ParallelExplorer(eof_while_parking(off, "eof"), bound=1, stop_on_violation=True, max_seconds=600)
        ex3.explore()
        res.add_explorer("eof-while-parking/s2c@%d" % off, ex3)
        res.bounds["eof-while-parking/s2c@%d" % off] = ex3.stats.bound_completed
    res.assumptions = ["lenient reading of 'becomes closed': checked after one further serve(0) on each side (what any next use of the "
                       "connection does); the strict reading (closed the instant the failing call returns) is not demanded",
                       "one fault per run; deterministic default schedule for the fault runs; the close/close race is explored over schedules",
                       "a poll call that itself raises select.error is outside the statement (EOF at poll = peer closed is covered by the read-side cuts)"]
    return res.finish()
