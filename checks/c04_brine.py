"""C04 -- the value serializer is lossless and exact about what it accepts.

Encode side: the whole value grammar (every wire-form length class, composites nested to depth 2/3,
every non-dumpable kind): dumpable(v) => dump succeeds and load(dump(v)) is type/bit identical;
not dumpable(v) => dump raises TypeError.
Decode side, exhaustively: all byte strings up to length 2 (quick) / 3 (thorough); all strings up to
length 4 / 5 over a reduced alphabet with one representative per tag class plus length-field
extremes; every single-byte substitution and every truncation of the encodings of the seed values.
Oracle for decoding: raises an Exception, or returns only exact-type immutable plain values; a
sys.addaudithook monitor sees no import / exec / compile / open / pickle / subprocess / os.system event and
sys.modules does not grow.
"""
import itertools
import sys

from mc import env
rpyc = env.import_rpyc()
from mc import values as V, runner            # noqa: E402
from rpyc.core import brine                   # noqa: E402

PID = "C04"
_audit = {"on": False, "events": []}
_BAD = ("import", "exec", "compile", "open", "pickle.find_class", "os.system", "subprocess.Popen", "os.exec",
        "os.posix_spawn", "os.spawn", "socket.connect", "ctypes.dlopen", "marshal.loads", "code.__new__")


def _hook(event, args):
    if _audit["on"] and event in _BAD:
        _audit["events"].append((event, repr(args)[:100]))


_hooked = [False]


def install_audit():
    if not _hooked[0]:
        sys.addaudithook(_hook)
        _hooked[0] = True


def only_plain(v, depth=0):
    return V.plain_immutable(v)


def check_encode(label, v):
    """returns list of (sig, text)"""
    out = []
    try:
        d = brine.dumpable(v)
    except Exception as ex:
        return [("dumpable-raised:%s" % type(ex).__name__, "%s: %r" % (label, ex))]
    try:
        data = brine.dump(v)
        err = None
    except Exception as ex:     # noqa
        data, err = None, ex
    if d:
        if err is not None:
            kind = "text-with-lone-surrogate" if isinstance(err, UnicodeEncodeError) else type(v).__name__
            return [("declared-serializable-but-dump-raised:%s:%s" % (type(err).__name__, kind),
                     "%s: dumpable() is True but dump raised %r" % (label, err))]
        try:
            back = brine.load(data)
        except Exception as ex:
            return [("roundtrip-load-raised:%s" % type(ex).__name__, "%s: %r" % (label, ex))]
        if not V.same(back, v):
            out.append(("roundtrip-differs:%s" % type(v).__name__, "%s: %s -> %s" % (label, V.short(v), V.short(back))))
    else:
        if err is None:
            out.append(("declared-unserializable-but-dump-succeeded:%s" % type(v).__name__, "%s -> %r" % (label, data[:40])))
        elif not isinstance(err, TypeError):
            out.append(("unserializable-refused-with-%s" % type(err).__name__, "%s: %r" % (label, err)))
    return out


def encode_cases(tier):
    cases = []
    for i, a in enumerate(V.atoms(big=True)):
        cases.append(("atom#%d" % i, a))
    for i, a in enumerate(V.arity_values()):
        cases.append(("arity#%d" % i, a))
    for i, c in enumerate(V.composites(2 if tier == "quick" else 3)):
        cases.append(("comp#%d" % i, c))
    # every atom inside every container kind
    for i, a in enumerate(V.atoms(big=False)):
        cases.append(("in-tuple#%d" % i, (a, (a,))))
        try:
            cases.append(("in-fset#%d" % i, frozenset([a, (a, 0)])))
        except TypeError:
            pass
        cases.append(("in-slice#%d" % i, slice(a, (a,), None)))
    for name, nd in V.nondumpables():
        cases.append(("non:" + name, nd))
        cases.append(("non-in-tuple:" + name, (1, nd)))
        try:
            cases.append(("non-in-fset:" + name, frozenset([nd])))
        except TypeError:
            pass
        cases.append(("non-in-slice:" + name, slice(None, nd, None)))
        cases.append(("non-deep:" + name, ((0, (1, (2, nd))),)))
    return cases


def run_encode(tier):
    viol = []
    n = 0
    kinds = set()
    for label, v in encode_cases(tier):
        n += 1
        r = check_encode(label, v)
        kinds.add((type(v).__name__, bool(V.plain_immutable(v))))
        viol.extend(r)
    return n, viol, len(kinds)


_BASE = [None]     # the probes' encodings, taken before anything else was ever encoded in this process


def history_probes():
    return [None, True, 0, 160, -1, 10 ** 30, 0.0, -0.0, 1.5, 1j, "s", "", b"b", (), (1, None), ((1, "a"), b"x"),
            frozenset([1]), frozenset(), slice(1, 2, 3), Ellipsis, NotImplemented]


def run_history(tier):
    """the serializer has no memory: after ANY earlier call - successful or refused (a refused encode may have got half
    way through a container) - every probe encodes to the same bytes as in a fresh interpreter state and decodes back"""
    viol = []
    n = 0
    probes = history_probes()
    base = _BASE[0] or [brine.dump(p) for p in probes]
    for label, v in encode_cases(tier):
        try:
            brine.dump(v)
            how = "successful"
        except Exception:     # noqa
            how = "refused"
        try:
            brine.dumpable(v)
        except Exception:     # noqa
            pass
        for p, b in zip(probes, base):
            n += 1
            try:
                d = brine.dump(p)
                back = brine.load(d)
            except Exception as ex:   # noqa
                viol.append(("history-dependent-encoding:%s-earlier-call:raised-%s" % (how, type(ex).__name__),
                             "after %s dump of %s: dump/load of %s raised %r" % (how, label, V.short(p), ex)))
                continue
            if d != b or not V.same(back, p):
                viol.append(("history-dependent-encoding:%s-earlier-call:%s" % (how, type(p).__name__),
                             "after %s dump of %s: %s encodes to %r (fresh: %r), decodes to %s" % (how, label, V.short(p), d[:40], b[:40], V.short(back))))
        if len(viol) > 10:
            break
    return n, viol


def run_identity_reuse():
    """verdicts must belong to VALUES, not to the addresses they live at: a container is judged, freed, and a container of
    the same size and the opposite verdict is created right away (CPython hands the freed block to it); tuples and
    frozensets of 20..300 items, both directions, top level and nested"""
    viol = []
    n = 0
    reused = 0
    for size in (20, 31, 32, 33, 40, 64, 255, 256, 300):
        for kind in ("tuple", "frozenset", "nested"):
            for first_bad in (True, False):
                for rep in range(3):
                    def make(bad):
                        items = list(range(1000, 1000 + size))
                        if bad:
                            items[-1] = [size] if kind != "frozenset" else brine      # a list / a module: by reference only
                        if kind == "tuple":
                            return tuple(items)
                        if kind == "frozenset":
                            return frozenset(items)
                        return (0, tuple(items))
                    a = make(first_bad)
                    ida = id(a if kind != "nested" else a[1])
                    va = brine.dumpable(a)
                    del a
                    b = make(not first_bad)
                    if id(b if kind != "nested" else b[1]) == ida:
                        reused += 1
                    n += 1
                    vb = brine.dumpable(b)
                    want_b = first_bad           # b is good exactly when a was bad
                    try:
                        brine.dump(b)
                        dumped = True
                    except TypeError:
                        dumped = False
                    except Exception as ex:   # noqa
                        dumped = type(ex).__name__
                    if va != (not first_bad) or vb != want_b or dumped != want_b:
                        viol.append(("verdict-follows-the-address:%s:size=%d" % (kind, size),
                                     "%s of %d items judged right after a freed one of the opposite kind: dumpable()=%r dump()=%r, expected %r "
                                     "(first: dumpable()=%r expected %r)" % (kind, size, vb, dumped, want_b, va, not first_bad)))
                    del b
    return n, reused, viol[:8]


# ------------------------------------------------------------------ decode side
def check_decode(data):
    _audit["events"] = []
    nmods = len(sys.modules)
    _audit["on"] = True
    try:
        v = brine.load(data)
        err = None
    except Exception as ex:     # noqa
        v, err = None, ex
    except BaseException as ex:     # noqa  (SystemExit, KeyboardInterrupt, GeneratorExit: not 'an exception' a caller survives)
        _audit["on"] = False
        return ("decode-raised-non-Exception:%s" % type(ex).__name__, "%r" % (data,)), "raise"
    _audit["on"] = False
    if _audit["events"]:
        return ("decode-side-effect:%s" % _audit["events"][0][0], "%r -> %r" % (data, _audit["events"][:3])), "x"
    if len(sys.modules) != nmods:
        return ("decode-imported-module", "%r" % (data,)), "x"
    if err is not None:
        return None, "raise:" + type(err).__name__
    if not only_plain(v):
        return ("decode-built-foreign-object:%s" % type(v).__name__, "%r -> %s" % (data, V.short(v))), "x"
    return None, "value:" + type(v).__name__


def decode_shard(spec):
    """spec: ('all', length, first_byte_lo, first_byte_hi) | ('alpha', length, first symbol index) | ('seeds', i0, i1)"""
    install_audit()
    viol = []
    n = 0
    outcomes = {}
    kind = spec[0]
    if kind == "all":
        _, L, lo, hi = spec
        if L == 0:
            it = [b""]
        else:
            it = (bytes((b0,) + rest) for b0 in range(lo, hi) for rest in itertools.product(range(256), repeat=L - 1))
    elif kind == "alpha":
        _, L, i0 = spec
        A = ALPHABET
        it = (bytes((A[i0],) + rest) for rest in itertools.product(A, repeat=L - 1))
    else:
        _, i0, i1 = spec
        it = seed_mutations(i0, i1)
    for data in it:
        n += 1
        v, oc = check_decode(data)
        outcomes[oc] = outcomes.get(oc, 0) + 1
        if v is not None and len(viol) < 5:
            viol.append(v)
    return n, viol, outcomes


# one representative per tag class plus length-field extremes
ALPHABET = bytes([0x00, 0x01, 0x02, 0x03, 0x05, 0x06, 0x07, 0x08, 0x09, 0x0a, 0x0b, 0x0d, 0x0e, 0x0f, 0x10, 0x11, 0x13, 0x14,
                  0x15, 0x16, 0x17, 0x18, 0x19, 0x1a, 0x1b, 0x1c, 0x1f, 0x20, 0x31, 0x50, 0x51, 0xef, 0xf0, 0xff, 0x80, 0x2d])

_SEEDS = None


def seeds():
    global _SEEDS
    if _SEEDS is None:
        out = []
        for v in V.atoms(big=False) + V.arity_values()[:20] + V.composites(1)[:150]:
            try:
                if brine.dumpable(v):
                    d = brine.dump(v)
                    if len(d) <= 600:
                        out.append(d)
            except Exception:
                pass
        _SEEDS = out
    return _SEEDS


def seed_mutations(i0, i1):
    for d in seeds()[i0:i1]:
        for cut in range(len(d)):
            yield d[:cut]
        for pos in range(len(d)):
            if len(d) > 64 and 8 < pos < len(d) - 8 and pos % 16:
                continue        # long seeds: every byte of the head and tail, every 16th byte in between
            head, tail = d[:pos], d[pos + 1:]
            for b in range(256):
                if b != d[pos]:
                    yield head + bytes((b,)) + tail


def decode_specs(tier):
    specs = [("all", 0, 0, 0), ("all", 1, 0, 256)]
    for lo in range(0, 256, 16):
        specs.append(("all", 2, lo, lo + 16))
    if tier == "thorough":
        for lo in range(0, 256, 4):
            specs.append(("all", 3, lo, lo + 4))
    maxlen = 4 if tier == "quick" else 5
    for L in range(3, maxlen + 1):
        for i0 in range(len(ALPHABET)):
            specs.append(("alpha", L, i0))
    ns = len(seeds())
    step = 8
    for i0 in range(0, ns, step):
        specs.append(("seeds", i0, min(ns, i0 + step)))
    return specs


def replay(rep):
    install_audit()
    if rep.get("kind") == "decode":
        data = bytes.fromhex(rep["hex"])
        a, b = check_decode(data), check_decode(data)
        print("decode %r -> %r" % (data, a))
        return 2 if a != b else (1 if a[0] else 0)
    cases = dict(encode_cases(rep.get("tier", "thorough")))
    v = cases[rep["label"]]
    a, b = check_encode(rep["label"], v), check_encode(rep["label"], v)
    print("encode %s -> %r" % (rep["label"], a))
    return 2 if a != b else (1 if a else 0)


def main(tier, replay_obj=None):
    if replay_obj is not None:
        return replay(replay_obj)
    res = runner.Result(PID, "exploration", tier,
                        "encode: every value of the grammar (atoms at every wire-form boundary, arity classes 0..5/255/256/257/70000, "
                        "composites nested to depth %d, every non-dumpable kind alone and inside tuple/frozenset/slice); decode: ALL byte "
                        "strings up to length %d, all strings up to length %d over a %d-symbol tag-class alphabet, every truncation and "
                        "single-byte substitution of %d seed encodings; distinct = distinct (type, plain?) classes on the encode side + "
                        "distinct decode outcome classes" % (2 if tier == "quick" else 3, 2 if tier == "quick" else 3,
                                                              4 if tier == "quick" else 5, len(ALPHABET), len(seeds())))
    _BASE[0] = [brine.dump(p) for p in history_probes()]
    n, viol, kinds = run_encode(tier)
    res.evaluations += n
    res.distinct_count_extra += kinds
    res.parts["encode"] = {"values": n, "type_classes": kinds}
    for sig, text in viol:
        label = text.split(":")[0]
        res.violation(sig, text, {"kind": "encode", "label": label})
    res.add_sample({"encode": "10**255 (256-digit integer)", "dumpable": True})
    n, viol = run_history(tier)
    res.evaluations += n
    res.parts["encode-history"] = {"earlier_call_x_probe": n, "probes": len(history_probes())}
    for sig, text in viol:
        res.violation(sig, text, {"kind": "history", "label": text.split(":")[0]})
    n, reused, viol = run_identity_reuse()
    res.evaluations += n
    res.parts["address-reuse"] = {"pairs": n, "pairs_where_the_address_was_really_reused": reused}
    for sig, text in viol:
        res.violation(sig, text, {"kind": "address-reuse"})
    specs = decode_specs(tier)
    outs = runner.pmap(decode_shard, [(s,) for s in specs], chunksize=1)
    total = 0
    oc_all = {}
    for spec, (nn, v, oc) in zip(specs, outs):
        total += nn
        for k, c in oc.items():
            oc_all[k] = oc_all.get(k, 0) + c
        for sig, text in v:
            res.violation(sig, text, {"kind": "decode", "hex": text.split(" ->")[0][:200]})
    res.evaluations += total
    res.parts["decode"] = {"byte_strings": total, "outcome_classes": oc_all, "shards": len(specs)}
    for k in oc_all:
        res.nontrivial("decode:" + k)
    res.add_sample({"decode": "0f ff ff ff ff 41 (4-byte length field far beyond the data)"})
    res.add_sample({"decode": "14 ff 00 (tuple header announcing 255 items)"})
    res.assumptions = ["integers beyond sys.get_int_max_str_digits() are outside the statement",
                       "the audit hook sees CPython's import/exec/compile/open/pickle.find_class/os.system/subprocess events"]
    return res.finish()
