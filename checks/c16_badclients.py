"""C16 -- a server keeps serving good clients correctly whatever bad clients do.

Real ThreadedServer and ThreadPoolServer on the simulated socket layer under the E1 scheduler, with and without
an authenticator (magic word).  Good clients: connect, call, keep per-connection state, hold a reference, call
again, close.  Hostile clients run one finite script each:
  garbage payload in a well-formed packet, unknown message kind, zero-length packet, 2^32-1 length field,
  compressed flag with non-zlib data, truncated zlib stream, a valid request cut at EVERY byte offset followed by
  an abrupt disconnect, immediate disconnect, disconnect during authentication, wrong magic word, partial magic
  word then silence, a stall that never completes a packet, and a burst of many such connections.
Enumerated: every script x {threaded, pool} x {auth, no auth} x {1 good + 1 hostile, 2 good + 1 hostile} on the
default schedule, and every schedule with <= 1 (quick) / 2 (thorough) preemptions at system-call granularity for the
non-split scripts.  Oracle: good clients' results equal the sequential expectation; after the hostile client a NEW
client connects and is served; every connection has its own service instance and state; an identifier harvested
on one connection is refused on another.
The forking server needs a process model the simulated kernel does not have; it is not covered.
"""
import zlib

from mc import env
rpyc = env.install_sim()
from mc import sched as S, simos, runner, srvharness as H, explore, canon, refcodec as R     # noqa: E402
from rpyc.core.async_ import AsyncResultTimeout                                              # noqa: E402
from rpyc.utils.authenticators import AuthenticationError                                    # noqa: E402
from rpyc.core import netref                                                                 # noqa: E402

PID = "C16"
MAGIC = b"MAGIC"


def authenticator(sock):
    data = b""
    while len(data) < len(MAGIC):
        chunk = sock.recv(len(MAGIC) - len(data))
        if not chunk:
            raise AuthenticationError("connection closed during authentication")
        data += chunk
    if data != MAGIC:
        raise AuthenticationError("wrong magic word")
    who = sock.recv(1)          # one more byte names the user
    if not who:
        raise AuthenticationError("no user")
    return sock, "user-" + who.decode("latin1")


VALID_REQ = R.message(R.REQUEST, 1, (1, (R.L_VALUE, ("ping",))))


class GoodCls(object):
    """a class of the well-behaved clients' own: they pass it to the server, which calls it"""

    def __init__(self, v):
        self.v = v


def forge_class_reference(sock):
    """the hostile client names the good clients' class (same name, same identifier - it runs the same program) in a
    reference of its own and LIES when the server asks what that class looks like (no methods at all)"""
    from rpyc.lib import get_id_pack
    idp = get_id_pack(GoodCls)
    sock.send(R.message(R.REQUEST, 50, (1, (R.L_TUPLE, ((R.L_REMOTE_REF, idp),)))))
    sock.settimeout(5)
    buf = bytearray()
    for _ in range(50):
        try:
            d = sock.recv(4096)
        except OSError:
            return
        if not d:
            return
        buf += d
        while True:
            r = R.unframe(buf)
            if r is None:
                break
            payload, rest = r
            buf = bytearray(rest)
            kind, seq, args = R.decode(payload)
            if kind == R.REQUEST and args[0] == 16:          # HANDLE_INSPECT
                sock.send(R.message(R.REPLY, seq, (R.L_VALUE, ())))
            elif kind == R.REQUEST:
                sock.send(R.message(R.EXCEPTION, seq, (("builtins", "ValueError"), ("no",), (), "tb")))
            elif seq == 50:
                return


def scripts(tier):
    """name -> list of actions: ('send', bytes) | ('close',) | ('hold',) (stay connected, silent) | ('reset',) |
    ('converse', fn) (a scripted conversation on the raw socket)"""
    sc = {}
    sc["forged-class-reference-then-reset"] = [("converse", forge_class_reference), ("reset",)]
    sc["forged-class-reference-then-hold"] = [("converse", forge_class_reference), ("hold",)]
    sc["immediate-disconnect"] = [("close",)]
    sc["reset-while-in-backlog"] = [("reset",)]
    sc["garbage-then-reset"] = [("send", b"\xff\x00junk"), ("reset",)]
    sc["garbage-payload"] = [("send", R.frame(b"\xff\xfe\x00garbage\x99")), ("close",)]
    sc["random-bytes"] = [("send", bytes((i * 37 + 11) & 0xff for i in range(97))), ("close",)]
    sc["unknown-kind"] = [("send", R.frame(R.encode((9, 1, ())))), ("hold",)]
    sc["payload-not-a-triple"] = [("send", R.frame(R.encode(5))), ("hold",)]
    sc["zero-length"] = [("send", b"\x00\x00\x00\x00\x00\n"), ("hold",)]
    sc["absurd-length"] = [("send", b"\xff\xff\xff\xff\x00abc"), ("hold",)]
    sc["absurd-length-then-close"] = [("send", b"\xff\xff\xff\xff\x00abc"), ("close",)]
    sc["bad-zlib"] = [("send", b"\x00\x00\x00\x08\x01notzlib!\n"), ("hold",)]
    z = zlib.compress(R.encode((1, 1, (1, (1, ("x" * 4000,))))), 1)
    sc["truncated-zlib"] = [("send", b"".join([len(z[:-5]).to_bytes(4, "big"), b"\x01", z[:-5], b"\n"])), ("hold",)]
    sc["missing-trailer"] = [("send", VALID_REQ[:-1] + b"X"), ("send", VALID_REQ), ("close",)]
    sc["stall-mid-header"] = [("send", VALID_REQ[:3]), ("hold",)]
    sc["stall-mid-body"] = [("send", VALID_REQ[:9]), ("hold",)]
    sc["valid-then-garbage"] = [("send", VALID_REQ), ("send", b"\x00\x00garbage"), ("close",)]
    sc["request-bad-handler"] = [("send", R.message(R.REQUEST, 2, (99, (R.L_VALUE, ())))), ("hold",)]
    sc["reply-out-of-the-blue"] = [("send", R.message(R.REPLY, 77, (R.L_VALUE, 1))), ("hold",)]
    sc["close-request"] = [("send", R.message(R.REQUEST, 3, (2, (R.L_VALUE, ())))), ("hold",)]
    for cut in range(0, len(VALID_REQ) + 1):
        sc["split@%d" % cut] = [("send", VALID_REQ[:cut]), ("close",)]
    return sc


def auth_scripts():
    sc = {}
    sc["auth:disconnect-before-magic"] = [("close",)]
    sc["auth:wrong-magic"] = [("send", b"WRONG"), ("hold",)]
    sc["auth:wrong-magic-then-request"] = [("send", b"WRONG" + VALID_REQ), ("close",)]
    sc["auth:partial-magic-then-close"] = [("send", MAGIC[:2]), ("close",)]
    sc["auth:partial-magic-then-silence"] = [("send", MAGIC[:3]), ("hold",)]
    return sc


class Hostile(object):
    def __init__(self, script, with_auth_prefix):
        self.script = script
        self.prefix = with_auth_prefix
        self.sock = None

    def run(self):
        s = simos.SimSocket()
        try:
            s.connect(("127.0.0.1", H.PORT))
        except OSError:
            return "refused"
        self.sock = s
        try:
            if self.prefix:
                s.send(MAGIC + b"h")
            for act in self.script:
                if act[0] == "send":
                    if act[1]:
                        s.send(act[1])
                elif act[0] == "converse":
                    act[1](s)
                elif act[0] == "close":
                    s.close()
                    return "closed"
                elif act[0] == "reset":
                    import struct
                    s.setsockopt(simos._real_socket.SOL_SOCKET, simos._real_socket.SO_LINGER, struct.pack("ii", 1, 0))
                    s.close()
                    return "reset"
        except OSError as ex:
            return "error:%s" % ex.errno
        return "holding"

    def fds(self):
        return [self.sock._fd] if self.sock is not None and not self.sock._closed else []


def safe(fn):
    """a client-side step that fails is an observation (judged against the expectation), not a harness error"""
    def run():
        try:
            return fn()
        except S.SimAbort:
            raise
        except EOFError:
            return ("EOFError",)
        except AsyncResultTimeout:
            return ("timeout",)
        except Exception as ex:    # noqa
            return ("raised", type(ex).__name__)
    return run


def scenario(kind, auth, script, ngood, burst=1, hostile_magic=None):
    """returns a function main() -> observations (run inside the scheduler)"""
    def main():
        # "pool1": a thread pool with a single worker - every worker a bad client costs the server is then felt at once
        srv = H.make_server("pool" if kind == "pool1" else kind, authenticator=authenticator if auth else None,
                            nthreads=1 if kind == "pool1" else burst + 4)
        st = S.SimThread(target=srv.start, name="server")
        st.start()
        S.sim_time.sleep(0.2)
        pre = (MAGIC + b"g") if auth else None
        obs = {}
        goods = [H.Client("g%d" % i, timeout=20) for i in range(ngood)]
        # phase 1: good clients connect and start their work
        for i, g in enumerate(goods):
            obs["g%d.connect" % i] = g.actor.call(safe(lambda g=g: g.connect(pre)), 100)
            obs["g%d.echo1" % i] = g.actor.call(safe(lambda g=g, i=i: g.call("echo", i)), 100)[:2]
            obs["g%d.put" % i] = g.actor.call(safe(lambda g=g, i=i: g.call("put", "mine-%d" % i)), 100)[:2]
        lent = {}

        def take(g, i):
            lent[i] = g.conn.root.lend()
            return ("value", lent[i].who())
        for i, g in enumerate(goods):
            obs["g%d.lend" % i] = g.actor.call(safe(lambda g=g, i=i: take(g, i)), 100)
        # phase 2: the hostile client(s)
        hs = []
        for b in range(burst):
            if script is not None:
                h = Hostile(script, auth if hostile_magic is None else hostile_magic)
                ha = S.SimThread(target=lambda h=h: obs.__setitem__("hostile%d" % len(hs), h.run()), name="hostile")
                ha.start()
                hs.append(h)
        S.sim_time.sleep(1.0)
        # phase 3: good clients go on; their state and references are their own
        for i, g in enumerate(goods):
            obs["g%d.echo2" % i] = g.actor.call(safe(lambda g=g, i=i: g.call("echo", 100 + i)), 100)[:2]
            obs["g%d.get" % i] = g.actor.call(safe(lambda g=g: g.call("get")), 100)[:2]
            obs["g%d.ident" % i] = g.actor.call(safe(lambda g=g: g.call("ident")), 100)[:2]
            obs["g%d.ref" % i] = g.actor.call(safe(lambda i=i: ("value", lent[i].who())), 100)
            obs["g%d.class" % i] = g.actor.call(safe(lambda g=g, i=i: ("value", g.conn.root.build(GoodCls, 40 + i).v)), 100)
        # an identifier harvested on connection 0 must be refused on connection 1
        if ngood >= 2 and 0 in lent:
            def forge():
                p = lent[0]
                idp = object.__getattribute__(p, "____id_pack__")
                forged = type(p)(goods[1].conn, idp)
                try:
                    return ("value", forged.who())
                except Exception as ex:
                    return ("refused", type(ex).__name__)
                finally:
                    object.__setattr__(forged, "____refcount__", 0)
            obs["cross-connection-id"] = goods[1].actor.call(safe(forge), 100)
        # phase 4: a NEW client after the hostile one
        n = H.Client("new", timeout=20)
        obs["new.connect"] = n.actor.call(safe(lambda: n.connect(pre)), 100)
        obs["new.echo"] = n.actor.call(safe(lambda: n.call("echo", "fresh")), 100)[:2]
        obs["new.get"] = n.actor.call(safe(lambda: n.call("get")), 100)[:2]
        obs["new.class"] = n.actor.call(safe(lambda: ("value", n.conn.root.build(GoodCls, 7).v)), 100)
        obs["accept-thread-alive"] = st.is_alive()
        obs["instances"] = len(H.Svc.instances)
        lent.clear()
        for g in goods + [n]:
            g.actor.call(g.graceful, 100)
            g.actor.stop = True
        # the hostile clients go away before the server is closed (closing a server under a stalled client is C17's subject)
        for h in hs:
            if h.sock is not None:
                h.sock.close()
        S.sim_time.sleep(0.5)
        r = safe(srv.close)()
        if r is not None:
            obs["server.close"] = r
        S.sim_time.sleep(1.0)
        return obs
    return main


def concurrent_auth_scenario(kind):
    """two clients with different credentials authenticate at the same time: each must be served under its own"""
    def main():
        srv = H.make_server(kind, authenticator=authenticator, nthreads=4)
        st = S.SimThread(target=srv.start, name="server")
        st.start()
        S.sim_time.sleep(0.2)
        obs = {}
        cs = [H.Client("a", timeout=20), H.Client("b", timeout=20)]

        def go(c, who):
            obs[who + ".connect"] = c.connect(MAGIC + who.encode())
            obs[who + ".whoami"] = c.call("whoami")[:2]
            obs[who + ".whoami2"] = c.call("whoami")[:2]
        ts = [S.SimThread(target=go, args=(c, who), name="cli-" + who) for c, who in zip(cs, "ab")]
        for t in ts:
            t.start()
        for t in ts:
            t.join(200)
        for c in cs:
            c.actor.stop = True
            if c.conn is not None:
                c.graceful()
        r = safe(srv.close)()
        if r is not None:
            obs["server.close"] = r
        S.sim_time.sleep(0.5)
        return obs
    return main


def judge_concurrent(obs, label):
    viol = []
    if "server.close" in obs:
        viol.append(("server-close-raised:%s" % obs["server.close"][1], "%s: %r" % (label, obs["server.close"])))
    for who in "ab":
        for k in (".whoami", ".whoami2"):
            got = obs.get(who + k)
            if got != ("value", "user-" + who):
                kind = "served-under-another-clients-credentials" if (got and got[0] == "value") else "not-served"
                viol.append(("concurrent-auth:%s" % kind, "%s: client %s observed %r" % (label, who, got)))
    return viol


def expected(ngood):
    exp = {}
    for i in range(ngood):
        exp["g%d.connect" % i] = ("connected",)
        exp["g%d.echo1" % i] = ("value", ("echo", i))
        exp["g%d.put" % i] = ("value", 1)
        exp["g%d.echo2" % i] = ("value", ("echo", 100 + i))
        exp["g%d.get" % i] = ("value", ("mine-%d" % i,))
        exp["g%d.class" % i] = ("value", 40 + i)
    exp["new.connect"] = ("connected",)
    exp["new.echo"] = ("value", ("echo", "fresh"))
    exp["new.get"] = ("value", ())
    exp["new.class"] = ("value", 7)
    exp["accept-thread-alive"] = True
    return exp


def judge(obs, ngood, label):
    viol = []
    exp = expected(ngood)
    # the scenario class is part of every signature, so that a recorded finding covers that scenario only
    import re
    m = re.match(r"(\w+) auth=(\w+) script=(\S+) good=", label)
    scen = "%s:auth=%s:script=%s" % (m.group(1), m.group(2), re.sub(r"@\d+", "", m.group(3))) if m else "?"
    for k, want in exp.items():
        got = obs.get(k)
        if got != want:
            what = k.split(".")[-1] if "." in k else k
            who = "new-client" if k.startswith("new") else ("good-client" if k.startswith("g") else "server")
            viol.append(("%s-not-served:%s:%s=%s" % (who, scen, what, (got[0] if isinstance(got, tuple) and got else got)),
                         "%s: %s = %r, expected %r" % (label, k, got, want)))
    idents = [obs.get("g%d.ident" % i) for i in range(ngood)]
    vals = [x[1] for x in idents if x and x[0] == "value"]
    if len(set(vals)) != len(vals):
        viol.append(("service-instance-shared-between-connections", "%s: idents %r" % (label, idents)))
    for i in range(ngood):
        lr, rr = obs.get("g%d.lend" % i), obs.get("g%d.ref" % i)
        if lr is None or rr is None or lr[0] != "value" or rr != lr:
            viol.append(("good-client:reference-broken", "%s: lend %r later %r" % (label, lr, rr)))
        elif idents[i] and idents[i][0] == "value" and lr[1] != idents[i][1]:
            viol.append(("reference-leaked-from-another-connection", "%s: client %d got object of instance %r" % (label, i, lr[1])))
    if "server.close" in obs:
        viol.append(("server-close-raised:%s" % obs["server.close"][1], "%s: %r" % (label, obs["server.close"])))
    cc = obs.get("cross-connection-id")
    if cc is not None and cc[0] != "refused":
        viol.append(("identifier-from-another-connection-accepted", "%s: %r" % (label, cc)))
    return viol


def run_default(kind, auth, name, script, ngood, burst=1):
    # authentication scripts replace the magic word themselves
    sch, box = H.run(scenario(kind, auth, script, ngood, burst, hostile_magic=(auth and not name.startswith("auth:"))), horizon=5000)
    label = "%s auth=%s script=%s good=%d" % (kind, auth, name, ngood)
    if "exc" in box:
        return [("harness-raised:%s" % type(box["exc"]).__name__, label + ": " + box["tb"][-300:])]
    if sch.outcome != "done":
        return [("scheduler:%s" % sch.outcome, "%s: %r" % (label, sch.deadlock_info))]
    return judge(box["result"], ngood, label)


def all_scripts(tier, auth):
    sc = dict(scripts(tier))
    if auth:
        for k, v in auth_scripts().items():
            sc[k] = v
    return sc


def default_cases(tier):
    out = []
    for kind in ("threaded", "pool", "forking"):
        for auth in (False, True):
            for name in sorted(all_scripts(tier, auth)):
                for ngood in (1, 2):
                    if ngood == 2 and tier == "quick" and name.startswith("split@") and int(name[6:]) % 5:
                        continue
                    out.append((kind, auth, name, ngood, 1))
            out.append((kind, auth, "stall-mid-header", 1, 3))
            out.append((kind, auth, "immediate-disconnect", 1, 3))
    # a pool with ONE worker against the scripts that send complete (malformed) packets and then go away
    for auth in (False, True):
        for name in ("garbage-payload", "random-bytes", "valid-then-garbage", "absurd-length-then-close", "missing-trailer",
                     "garbage-then-reset", "forged-class-reference-then-reset"):
            out.append(("pool1", auth, name, 1, 1))
            out.append(("pool1", auth, name, 1, 2))
    return out


def run_default_chunk(cases, tier):
    env.silence_unraisable()
    viol = []
    for kind, auth, name, ngood, burst in cases:
        sc = all_scripts(tier, auth)[name]
        v = run_default(kind, auth, name, sc, ngood, burst)
        viol.extend(v)
        if len(viol) > 5:
            break
    return len(cases), viol


def sched_run(kind, auth, name, script, ngood):
    main = scenario(kind, auth, script, ngood, hostile_magic=(auth and not name.startswith("auth:")))

    def run(choices, want_state, cut_fn):
        def state_fn(s):
            k = simos.kernel()
            return canon.state_key(s, [k.fds, k.bound, H.Svc.instances], canon.DEFAULT_PREFIXES + (env.VERIF + "/mc/srvharness.py",))
        sch, box = H.run(main, choices=choices, state_fn=state_fn if want_state else None, cut_fn=cut_fn, points=True, horizon=5000)
        label = "%s auth=%s script=%s good=%d" % (kind, auth, name, ngood)
        if sch.outcome == "cut":
            return sch, {"violations": [], "outcome_key": None}
        if "exc" in box:
            return sch, {"violations": [("harness-raised:%s" % type(box["exc"]).__name__, label + box["tb"][-300:])], "outcome_key": "exc"}
        if sch.outcome != "done":
            return sch, {"violations": [("scheduler:%s" % sch.outcome, label + repr(sch.deadlock_info))], "outcome_key": sch.outcome}
        v = judge(box["result"], ngood, label)
        return sch, {"violations": v, "outcome_key": tuple(sorted((k, repr(x)) for k, x in box["result"].items() if k.startswith("hostile")))}
    return run


def concurrent_run(kind):
    main = concurrent_auth_scenario(kind)

    def run(choices, want_state, cut_fn):
        sch, box = H.run(main, choices=choices, points=True, horizon=5000)
        label = "%s concurrent-auth" % kind
        if sch.outcome == "cut":
            return sch, {"violations": [], "outcome_key": None}
        if "exc" in box:
            return sch, {"violations": [("harness-raised:%s" % type(box["exc"]).__name__, label + box["tb"][-300:])], "outcome_key": "exc"}
        if sch.outcome != "done":
            return sch, {"violations": [("scheduler:%s" % sch.outcome, label + repr(sch.deadlock_info))], "outcome_key": sch.outcome}
        return sch, {"violations": judge_concurrent(box["result"], label), "outcome_key": tuple(sorted(box["result"].items()))}
    return run


_watched = [False]


def watch_server_lines():
    """line-granularity scheduling points inside the per-connection set-up code of the servers"""
    if _watched[0]:
        return
    from mc import trace
    from rpyc.utils import server as rs
    from rpyc.core.protocol import Connection
    from rpyc.core.service import Service
    trace.watch([rs.Server._serve_client, rs.Server._authenticate_and_serve_client, rs.Server.accept,
                 rs.ThreadPoolServer._authenticate_and_build_connection, rs.ThreadPoolServer._accept_method,
                 Service.__dict__["_connect"].func, Connection.__init__, H.Svc.__init__])
    _watched[0] = True


SCHED_SCRIPTS = ("immediate-disconnect", "garbage-payload", "unknown-kind", "absurd-length-then-close", "bad-zlib", "stall-mid-header",
                 "split@7", "close-request")


def chunks(xs, n):
    return [xs[i:i + n] for i in range(0, len(xs), n)]


def replay(rep):
    env.silence_unraisable()
    tier = rep.get("tier", "quick")
    if rep.get("part", "").startswith("fd-reuse"):
        from checks import c17_serverclose as c17
        c17.watch_pool_lines()
        a = c17.reuse_from_part(rep["part"], "C16")(rep["choices"], False, None)[1]["violations"]
        b = c17.reuse_from_part(rep["part"], "C16")(rep["choices"], False, None)[1]["violations"]
    elif rep.get("part", "").endswith("/concurrent-auth"):
        watch_server_lines()
        kind = rep["part"].split("/")[1]
        a = concurrent_run(kind)(rep["choices"], False, None)[1]["violations"]
        b = concurrent_run(kind)(rep["choices"], False, None)[1]["violations"]
    elif rep.get("part", "").startswith("sched/"):
        watch_server_lines()
        _, kind, auth, name = rep["part"].split("/")
        auth = auth == "True"
        run = sched_run(kind, auth, name, all_scripts(tier, auth)[name], 1)
        a = run(rep["choices"], False, None)[1]["violations"]
        b = run(rep["choices"], False, None)[1]["violations"]
    else:
        c = rep["case"]
        a = run_default_chunk([tuple(c)], tier)[1]
        b = run_default_chunk([tuple(c)], tier)[1]
    if [x[0] for x in a] != [x[0] for x in b]:
        print("REPLAY-DIVERGENCE", a, b)
        return 2
    print("replayed -> %r" % (a[:3],))
    return 1 if a else 0


def check_compat_poll():
    """the thread-pool server decides per DESCRIPTOR from what rpyc.lib.compat.poll reports (the simulated socket layer
    replaces that class, so it is exercised here on real sockets): a client that reset its connection, one with a request
    pending and an idle one in the same poll() call - each descriptor's flags are its own"""
    import socket as rs
    import struct
    import time as rt
    from rpyc.lib.compat import poll as real_poll
    viol = []
    n = 0
    for order in ((0, 1, 2), (1, 0, 2), (2, 0, 1)):
        n += 1
        pairs = [rs.socketpair() for _ in range(3)]
        ls = rs.socket()
        ls.bind(("127.0.0.1", 0))
        ls.listen(4)
        c = rs.socket()
        c.connect(ls.getsockname())
        srv_side, _ = ls.accept()
        c.setsockopt(rs.SOL_SOCKET, rs.SO_LINGER, struct.pack("ii", 1, 0))
        c.close()                                   # RST: error / hang-up on srv_side
        pairs[1][1].send(b"request")                # readable on pairs[1][0]
        rt.sleep(0.05)
        socks = [srv_side, pairs[1][0], pairs[2][0]]
        p = real_poll()
        for i in order:
            p.register(socks[i].fileno(), "reh")
        got = dict(p.poll(0.5))
        m_reset, m_data, m_idle = (got.get(s_.fileno(), "") for s_ in socks)
        if not ("e" in m_reset or "h" in m_reset or "r" in m_reset):
            viol.append(("compat-poll:reset-not-reported", repr(got)))
        if "r" not in m_data or "e" in m_data or "h" in m_data or "n" in m_data:
            viol.append(("compat-poll:flags-of-another-descriptor:client-with-a-pending-request=%s" % m_data, "registration order %r: %r" % (order, got)))
        if m_idle:
            viol.append(("compat-poll:idle-descriptor-reported=%s" % m_idle, "registration order %r: %r" % (order, got)))
        for a, b in pairs:
            a.close()
            b.close()
        srv_side.close()
        ls.close()
    return n, viol


def main(tier, replay_obj=None):
    if replay_obj is not None:
        return replay(replay_obj)
    env.silence_unraisable()
    res = runner.Result(PID, "model_checking", tier,
                        "hostile scripts (%d, incl. a valid request cut at every byte offset; +5 authentication scripts) x {threaded, pool} x "
                        "{auth, no auth} x {1, 2 good clients} on the default schedule, bursts of 3 hostile connections, and every schedule with "
                        "<= %d preemption(s) at system-call granularity for %d representative scripts; states/transitions = distinct schedules "
                        "executed, evaluations = scenarios + schedules" % (len(scripts(tier)), 1, len(SCHED_SCRIPTS) if tier == "thorough" else 3))
    known = runner.load_known()
    n_, viol_ = check_compat_poll()
    res.evaluations += n_
    res.parts["compat-poll-on-real-sockets"] = {"cases": n_}
    for sig, text in viol_:
        res.violation(sig, text, {"part": "compat-poll"})
    cases = default_cases(tier)
    outs = runner.pmap(run_default_chunk, [(c, tier) for c in chunks(cases, 6)])
    n = 0
    for (nn, viol), cs in zip(outs, chunks(cases, 6)):
        n += nn
        for sig, text in viol:
            case = cs[0]
            for c in cs:
                if ("script=%s " % c[2]) in text and text.startswith(c[0]) and ("auth=%s" % c[1]) in text and ("good=%d" % c[3]) in text:
                    case = c
            res.violation(sig, text, {"case": list(case)})
    res.evaluations += n
    res.traces += n
    res.distinct_count_extra += n
    res.parts["default-schedule"] = {"scenarios": n}
    res.add_sample({"scenario": ["pool", True, "split@11", 2, 1]})
    bound = 1
    watch_server_lines()
    for kind in ("threaded", "pool"):
        ex = explore.ParallelExplorer(concurrent_run(kind), bound=1 if tier == "quick" else 2, use_cache=False, deviations=True,
                                      max_seconds=200 if tier == "quick" else 900, stop_on_violation=True, task_execs=40, warmup_execs=4)
        ex.explore()
        ex.stats.states = max(ex.stats.states, ex.stats.executions)
        ex.stats.transitions = max(ex.stats.transitions, ex.stats.executions)
        res.add_explorer("sched/%s/concurrent-auth" % kind, ex)
    # a client leaving abruptly while a well-behaved one arrives (the kernel recycles descriptor numbers; the pool's
    # tables are keyed by them): explored with the same scenario and explorer as C17's, oracle = the newcomer is served
    from checks import c17_serverclose as c17
    c17.watch_pool_lines()

    def unlisted(sig):
        return (PID, sig) not in known
    c17.explore_reuse(res, tier, "C16", unlisted, deep=False)
    for kind in ("threaded", "pool"):
        for auth in ((False,) if tier == "quick" else (False, True)):
            for name in SCHED_SCRIPTS if tier == "thorough" else SCHED_SCRIPTS[:3]:
                if any((PID, v[0]) not in known for v in res.violations):
                    break
                # every execution is ONE deviation (any non-default scheduling choice, preemptive or not) from the default schedule: no state cache needed
                ex = explore.ParallelExplorer(sched_run(kind, auth, name, all_scripts(tier, auth)[name], 1), bound=bound, use_cache=False, deviations=True,
                                              max_seconds=120 if tier == "quick" else 900, stop_on_violation=True, task_execs=40, warmup_execs=4)
                ex.explore()
                ex.stats.states = max(ex.stats.states, ex.stats.executions)
                ex.stats.transitions = max(ex.stats.transitions, ex.stats.executions)
                res.add_explorer("sched/%s/%s/%s" % (kind, auth, name), ex)
                res.bounds["sched/%s/%s/%s" % (kind, auth, name)] = ex.stats.bound_completed
    res.assumptions = ["the hostile byte strings are a structured alphabet (listed in the check), not all byte strings",
                       "the thread pool is sized above the number of never-finishing clients (pool exhaustion is resource exhaustion)",
                       "the forking server is not covered (no process model in the simulated kernel)"]
    return res.finish()
