"""C14 -- a waiter returns as soon as its reply has been processed by any thread.

Same harness and exploration as C13 (checks/c13_replies.py); the oracle here is the stall monitor:
the virtual clock must not advance while a requester's reply has already been processed (its
AsyncResult is ready) and the requester is still blocked.  The execution is stopped at the first
stall (no need to simulate the 30 s time-out).  Signatures name where the waiter is blocked and
whether its last readiness check preceded the processing of the reply.
"""
from checks import c13_replies as base

CONFIGS = {
    "quick": [
        ("1req+bg", 1, 1, True, None, True),
        ("2req", 2, 1, False, None, True),
        ("2req+bg/pb2", 2, 1, True, 2, True),
        ("3req/pb1", 3, 1, False, 1, True),
        ("1req+poller/pb2", 1, 1, "poller", 2, True),
    ],
    "thorough": [
        ("1req+bg", 1, 1, True, None, True),
        ("2req", 2, 1, False, None, True),
        ("2req+bg/pb3", 2, 1, True, 3, True),
        ("3req/pb2", 3, 1, False, 2, True),
        ("2req-x2/pb2", 2, 2, False, 2, True),
        ("1req+poller/pb3", 1, 1, "poller", 3, True),
        ("2req+poller/pb2", 2, 1, "poller", 2, True),
    ],
}


def main(tier, replay_obj=None):
    base.CONFIGS_ACTIVE = CONFIGS
    return base.main_for(
        "C14", tier, replay_obj,
        "every line-granularity interleaving of a caller (or two callers) and the background serving thread around "
        "serve()'s release/notify/dispatch and wait()'s loop, both reply orders; oracle: the virtual clock may not "
        "advance between 'reply processed' and 'waiter returned'; distinct = distinct end observations + executions "
        "on a non-default schedule",
        ["scheduling points: source lines of the watched functions and every transport poll/write",
         "virtual time advances only when no thread can run, so any clock advance while a ready waiter is blocked is a stall",
         "the execution stops at the first stall"],
        configs=CONFIGS)
