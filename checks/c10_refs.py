"""C10 -- objects lent to the peer live exactly as long as the peer holds them.

Explicit-state BFS over delivery-controlled histories on a real Connection pair.  Owner O (client side)
lends objects k in {1,2} to peer P.  Events:
  ("send", k, shape)   O issues an asynchronous call P.take(x), x = k | (k,) | (k,k) | (k,0)
  ("ssend", k)         O calls P.take(k) synchronously (forces delivery both ways until the reply)
  ("drop", i)          P drops one reference it holds
  ("back", i)          P passes a proxy it holds back to O (asynchronous call O.give(p)); O must see the original
  ("dcs",) / ("dsc",)  the receiving side processes exactly one pending frame (client->server / server->client)
  ("fetch", k, shape)  P asks O for object k asynchronously: the reference travels in a reply;
  ("collect", i) / ("discard", i)  P reads the value of a ready asynchronous result / drops the result unread
  ("close",)           O closes the connection
State = history (rebuilt from scratch on the real code for every transition); canonical key = owner table
counts, P's references with identity structure and proxy counts, both in-flight queues (decoded, ids replaced
by role labels, sequence numbers dropped: they are opaque correlation tokens).
Probes on throw-away rebuilds of every new state:
  I1 every proxy P holds is usable and reaches the right object;  I3 close() releases everything;
  I2 drop everything + deliver to quiescence => O's table holds no lent object and weak references die.
"""
import gc
import weakref

from mc import env
rpyc = env.install_sim()
from mc import sched as S, pair, bfs, runner, refcodec as R, canon     # noqa: E402
import rpyc as _rpyc                                                    # noqa: E402
from rpyc.core import netref                                            # noqa: E402

PID = "C10"


class Thing(object):
    """user-defined lendable object"""

    def __init__(self, k):
        self.k = k

    def __getitem__(self, i):
        return self.k


class OwnerService(_rpyc.Service):
    def __init__(self):
        self.given = []
        self.objs = {}

    def exposed_get(self, k, shape):
        o = self.objs[k]
        return o if shape == "one" else (o, 0)

    def exposed_give(self, obj):
        self.given.append(obj)


class PeerService(_rpyc.Service):
    def __init__(self):
        self.held = []

    def exposed_take(self, x):
        items = x if type(x) is tuple else (x,)
        for it in items:
            if isinstance(type(it), netref.NetrefMetaclass):
                self.held.append(it)


SHAPES = ("one", "tup1", "tup2", "tupmix")
ACTIVE_SHAPES = [SHAPES]
ACTIVE_BAD = [0]         # how many sends may fail to encode at the owner
BIG = 10 ** 5000         # dumpable() says yes, dump() raises ValueError (int -> str digit limit)
ACTIVE_FETCH = [0]       # how many times the peer may ASK for an object (reference travels in a reply, collected or not)


class Sys(object):
    """the system under exploration, living inside one scheduler run"""

    def __init__(self, kind, nobj):
        self.kind = kind
        self.osvc, self.psvc = OwnerService(), PeerService()
        self.w = pair.World(self.osvc, self.psvc)
        self.objs = {}
        for k in range(1, nobj + 1):
            self.objs[k] = [k] if kind == "list" else Thing(k)
        self.osvc.objs = self.objs
        self.presults = []
        self.fetches = 0
        self.labels = {}
        for k, o in self.objs.items():
            self.labels[id(o)] = "obj%d" % k
        self.labels[id(Thing)] = "cls"
        self.labels[id(list)] = "cls"
        self.labels[id(self.osvc)] = "osvc"
        self.labels[id(self.psvc)] = "psvc"
        self.labels[id(OwnerService)] = "ocls"
        self.labels[id(PeerService)] = "pcls"
        self.O = pair.Actor("O").start()
        self.P = pair.Actor("P").start()
        self.pending = []
        self.sends = dict((k, 0) for k in self.objs)
        self.backs = 0
        self.bad_sends = 0
        self.closed = False
        self.viol = []
        # setup: both roots, async wrappers, and (user class) a warmed class cache at P
        c, s = self.w.cconn, self.w.sconn
        self.drive(self.O, lambda: setattr(self, "proot", c.root), self.P, s)
        self.drive(self.P, lambda: setattr(self, "oroot", s.root), self.O, c)
        self.drive(self.O, lambda: setattr(self, "a_take", _rpyc.async_(self.proot.take)), self.P, s)
        self.drive(self.P, lambda: setattr(self, "a_give", _rpyc.async_(self.oroot.give)), self.O, c)
        self.s_take = None
        self.drive(self.O, lambda: setattr(self, "s_take", self.proot.take), self.P, s)
        self.drive(self.P, lambda: setattr(self, "a_get", _rpyc.async_(self.oroot.get)), self.O, c)
        if kind == "thing":
            warm = Thing(0)
            self.labels[id(warm)] = "warm"
            self.drive(self.O, lambda: self.s_take(warm), self.P, s)
            self.psvc.held[:] = []
            self.quiesce()
            del warm
        # everything lent during the (fixed) setup gets a role label in insertion order
        n = 0
        for conn in (c, s):
            for idp in conn._local_objects._dict:
                for v in idp[1:]:
                    if v not in self.labels:
                        self.labels[v] = "setup%d" % n
                        n += 1

    # -- driving: run fn on actor A; whenever A blocks in a nested wait let B serve one frame
    def drive(self, A, fn, B, connB, limit=200):
        s = S.current_sched()
        A.submit(fn)

        def waiting():
            lt = A.lt
            return (lt.state == "blocked" and lt.block_kind not in ("actor.idle", None) and not lt.pred())

        for _ in range(limit):
            s.block(lambda: (not A.busy and A.cmd is None) or waiting(), None, "drive.wait")
            if not A.busy and A.cmd is None:
                break
            streamB = connB._channel.stream
            if getattr(streamB, "closed", True) or not streamB.inbox:
                # A waits for something that is not coming: let virtual time pass (its own time-out)
                dl = A.lt.deadline
                ok = s.block(lambda: (not A.busy and A.cmd is None) or (waiting() and A.lt.deadline != dl),
                             s.clock + 1000, "drive.stuck")
                if not ok:
                    raise S.HarnessError("actor %s stuck in %s" % (A.name, A.blocked_in()))
                continue
            B.call(lambda: connB.serve(0))
        else:
            raise S.HarnessError("drive: too many nested deliveries")
        if A.exc is not None:
            e, A.exc = A.exc, None
            raise e
        r, A.result = A.result, None
        return r

    def quiesce(self, limit=100):
        c, s = self.w.cconn, self.w.sconn
        for _ in range(limit):
            if not self.w.b._closed and self.w.b.inbox and not s.closed:
                self.drive(self.P, lambda: s.serve(0), self.O, c)
            elif not self.w.a._closed and self.w.a.inbox and not c.closed:
                self.drive(self.O, lambda: c.serve(0), self.P, s)
            else:
                return
        raise S.HarnessError("no quiescence")

    # -- events
    def arg(self, k, shape):
        o = self.objs[k]
        return {"one": o, "tup1": (o,), "tup2": (o, o), "tupmix": (o, 0)}[shape]

    def apply(self, ev):
        c, s = self.w.cconn, self.w.sconn
        op = ev[0]
        if op == "send":
            _, k, shape = ev
            x = self.arg(k, shape)
            self.sends[k] += 1
            self.drive(self.O, lambda: self.pending.append(self.a_take(x)), self.P, s)
        elif op == "bad_send":
            # the object travels next to a value that passes dumpable() but cannot be encoded (an integer beyond the
            # interpreter's digit limit): the send fails at the owner, the message never leaves
            o = self.objs[ev[1]]
            self.bad_sends += 1

            def go():
                try:
                    self.pending.append(self.a_take((o, BIG)))
                    return "sent"
                except ValueError:
                    return "refused"
            r = self.drive(self.O, go, self.P, s)
            if r != "refused":
                self.viol.append(("unencodable-message-not-refused", repr(r)))
        elif op == "ssend":
            self.sends[ev[1]] += 1
            o = self.objs[ev[1]]
            self.drive(self.O, lambda: self.s_take(o), self.P, s)
        elif op == "drop":
            held = self.psvc.held
            self.drive(self.P, lambda: held.pop(ev[1]) and None, self.O, c)
        elif op == "back":
            self.backs += 1
            p = self.psvc.held[ev[1]]
            self.drive(self.P, lambda: self.pending.append(self.a_give(p)), self.O, c)
            del p
        elif op == "fetch":
            # the peer asks for object k asynchronously: the reference travels in a REPLY
            self.fetches += 1
            self.drive(self.P, lambda: self.presults.append(self.a_get(ev[1], ev[2])), self.O, c)
        elif op == "collect":
            def take():
                v = self.presults.pop(ev[1]).value
                self.psvc.held.append(v[0] if type(v) is tuple else v)
            self.drive(self.P, take, self.O, c)
        elif op == "discard":
            # the asynchronous result is dropped without ever being looked at
            self.drive(self.P, lambda: self.presults.pop(ev[1]) and None, self.O, c)
        elif op == "dcs":
            if self.closed:
                # the peer reads the rest of a closed stream: the close request ends its side with EOFError
                def srv():
                    try:
                        s.serve(0)
                    except EOFError:
                        pass
                self.drive(self.P, srv, self.O, c)
                if s.closed and s._local_objects._dict:
                    self.viol.append(("close-leaves-table-entries:peer", "peer closed but holds %d entries" % len(s._local_objects._dict)))
            else:
                self.drive(self.P, lambda: s.serve(0), self.O, c)
        elif op == "dsc":
            self.drive(self.O, lambda: c.serve(0), self.P, s)
        elif op == "close":
            self.closed = True
            self.drive(self.O, c.close, self.P, s)
            if c._local_objects._dict:
                self.viol.append(("close-leaves-table-entries", "after close(): %d entries" % len(c._local_objects._dict)))
        else:
            raise ValueError(ev)
        # continuous invariant: whatever O was given back must be the original objects themselves
        for g in self.osvc.given:
            if not any(g is o for o in self.objs.values()):
                self.viol.append(("passed-back-proxy-is-not-the-original", "O.give received %r" % (type(g),)))

    def enabled(self, max_sends, max_backs, with_ssend, shapes=SHAPES):
        if self.closed:
            out = []
            if not self.w.b._closed and self.w.b.inbox and not self.w.sconn.closed:
                out.append(("dcs",))
            return out
        out = []
        for k in sorted(self.objs):
            if self.sends[k] < max_sends:
                for sh in shapes:
                    out.append(("send", k, sh))
                if with_ssend:
                    out.append(("ssend", k))
        seen = set()
        for i, p in enumerate(self.psvc.held):
            # dropping/passing back either of two references to the same proxy is the same event
            if id(p) in seen:
                continue
            seen.add(id(p))
            out.append(("drop", i))
            if self.backs < max_backs:
                out.append(("back", i))
        if self.bad_sends < ACTIVE_BAD[0]:
            for k in sorted(self.objs):
                out.append(("bad_send", k))
        if self.fetches < ACTIVE_FETCH[0]:
            for k in sorted(self.objs):
                out.append(("fetch", k, "one"))
                out.append(("fetch", k, "tupmix"))
        for i, r in enumerate(self.presults):
            if r._is_ready:
                out.append(("collect", i))
            out.append(("discard", i))
        if self.w.b.inbox:
            out.append(("dcs",))
        if self.w.a.inbox:
            out.append(("dsc",))
        out.append(("close",))
        return out

    # -- canonical state
    def frames(self, stream):
        out = []
        buf = bytes(stream.inbox)
        while buf:
            r = R.unframe(buf)
            if r is None:
                out.append(("partial", len(buf)))
                break
            payload, buf = r
            kind, seq, args = R.decode(payload)
            out.append((kind, args))          # seq dropped: opaque correlation token
        return tuple(out)

    def key(self):
        c, s = self.w.cconn, self.w.sconn
        cn = canon.Canon(self.labels)
        table = []
        if not c.closed:
            for idp, slot in c._local_objects._dict.items():
                table.append((cn.enc(idp), slot[1]))
        table.sort(key=repr)
        g = object.__getattribute__
        pidx = {}
        held = []
        for p in self.psvc.held:
            i = pidx.setdefault(id(p), len(pidx))
            held.append((i, cn.enc(g(p, "____id_pack__")), g(p, "____refcount__")))
        cache = sorted((repr(cn.enc(kk)) for kk in s._proxy_cache._dict.keys())) if not s.closed else ()
        return (tuple(table), tuple(held), tuple(cache), cn.enc(self.frames(self.w.a)), cn.enc(self.frames(self.w.b)),
                tuple(sorted(self.sends.items())), self.backs, c.closed, s.closed, len(self.osvc.given),
                len(c._request_callbacks) if not c.closed else -1, self.fetches, tuple(bool(r._is_ready) for r in self.presults),
                len(s._request_callbacks) if not s.closed else -1, self.bad_sends)

    # -- probes (destructive)
    def probe_use_then_close(self):
        c, s = self.w.cconn, self.w.sconn
        out = []
        p = None
        for i, p in enumerate(list(self.psvc.held)):
            idp = object.__getattribute__(p, "____id_pack__")
            want = None
            for k, o in self.objs.items():
                if idp[2] == id(o):
                    want = k
            try:
                got = self.drive(self.P, lambda: p[0], self.O, c)
            except Exception as ex:
                out.append(("live-proxy-unusable:%s" % type(ex).__name__,
                            "P's reference #%d (object %s) failed: %r" % (i, want, ex)))
                continue
            if got != want:
                out.append(("live-proxy-reaches-wrong-object", "reference #%d: got %r want %r" % (i, got, want)))
        del p
        # I3: close releases everything O held for the peer
        self.drive(self.O, c.close, self.P, s)
        if c._local_objects._dict:
            out.append(("close-leaves-table-entries", "after close(): %d entries" % len(c._local_objects._dict)))
        return out

    def probe_drop_all(self):
        c, s = self.w.cconn, self.w.sconn
        out = []
        held = self.psvc.held
        for _ in range(50):
            # in-flight references turn into new proxies when delivered: drop and deliver until nothing is left
            self.drive(self.P, lambda: held.__delitem__(slice(None)), self.O, c)
            # asynchronous results nobody looked at are dropped as well (the peer holds NOTHING)
            pres = self.presults
            self.drive(self.P, lambda: pres.__delitem__(slice(None)), self.O, c)
            self.quiesce()
            if not held and not pres and not self.w.a.inbox and not self.w.b.inbox:
                break
        else:
            raise S.HarnessError("drop-all probe does not settle")
        ids = dict((id(o), k) for k, o in self.objs.items())
        left = [ids[idp[2]] for idp in c._local_objects._dict if idp[2] in ids]
        if left:
            cnt = [c._local_objects._dict[idp][1] for idp in c._local_objects._dict if idp[2] in ids]
            out.append(("leak-at-quiescence" + (":after-a-send-that-failed-to-encode" if self.bad_sends else ""), "peer holds nothing and all notices were processed, but O's table still "
                        "references object(s) %r (counts %r)" % (sorted(left), cnt)))
        if self.kind.startswith("thing") and not left:
            refs = dict((k, weakref.ref(o)) for k, o in self.objs.items())
            self.osvc.given[:] = []
            self.pending[:] = []
            self.objs.clear()
            alive = [k for k, r in refs.items() if r() is not None]
            if alive:
                out.append(("object-kept-alive-at-quiescence", "objects %r still strongly referenced" % (alive,)))
        return out


def _run_history(kind, nobj, hist, max_sends, max_backs, with_ssend, mode):
    """mode: 'key' -> (key, enabled, viol); 'use' / 'dropall' -> probe violations"""
    box = {}

    def main():
        sy = Sys(kind, nobj)
        box["sys"] = sy
        for ev in hist:
            sy.apply(ev)
        if mode == "key":
            box["out"] = (sy.key(), sy.enabled(max_sends, max_backs, with_ssend, ACTIVE_SHAPES[0]), list(sy.viol))
        elif mode == "use":
            box["out"] = sy.probe_use_then_close()
        else:
            box["out"] = sy.probe_drop_all()

    sch, _, exc = pair.run(main, horizon=10000)
    sy = box.get("sys")
    if sy is not None:
        sy.psvc.held[:] = []
        sy.pending[:] = []
        sy.presults[:] = []
        sy.w.shutdown()
    if exc is not None:
        if isinstance(exc, S.HarnessError):
            raise exc
        return ("exc", exc)
    if sch.outcome != "done":
        return ("sched", sch.outcome, sch.deadlock_info)
    return ("ok", box["out"])


def make_expand(kind, nobj, max_sends, max_backs, with_ssend):
    def expand(hist, ev):
        h = list(hist) + [ev]
        viols = []
        r = _run_history(kind, nobj, h, max_sends, max_backs, with_ssend, "key")
        if r[0] == "exc":
            return (("exc", repr(r[1])), [], [("event-raised:%s:%s" % (ev[0], type(r[1]).__name__),
                                               "history %r: %r" % (h, r[1]))], None)
        if r[0] == "sched":
            return (("sched", r[1]), [], [("scheduler:%s" % r[1], "history %r: %r" % (h, r[2]))], None)
        key, enabled, v = r[1]
        viols.extend(v)
        return key, enabled, viols, None
    return expand


def make_probe(kind, nobj, max_sends, max_backs, with_ssend):
    def probe(hist):
        viols = []
        for mode in ("use", "dropall"):
            r = _run_history(kind, nobj, list(hist), max_sends, max_backs, with_ssend, mode)
            if r[0] == "exc":
                viols.append(("probe-raised:%s:%s" % (mode, type(r[1]).__name__), "history %r: %r" % (hist, r[1])))
            elif r[0] == "sched":
                viols.append(("probe-scheduler:%s:%s" % (mode, r[1]), "history %r: %r" % (hist, r[2])))
            else:
                viols.extend(r[1])
        return viols
    return probe


CONFIGS = {
    # name: kind, objects, max sends per object, max backs, with sync send, max depth
    "quick": [
        ("list/1obj/3sends", "list", 1, 3, 1, True, 40),
        ("list/2obj/2sends/shapes=one,tup2", "list", 2, 2, 0, False, 40),
        ("thing/1obj/2sends", "thing", 1, 2, 1, True, 40),
        ("list/1obj/1send/fetch=2/shapes=one", "list", 1, 1, 1, False, 40),
        ("list/1obj/2sends/badsend=1/shapes=one", "list", 1, 2, 0, False, 40),
        # user class whose proxy type the peer does NOT know yet: the first delivery makes the peer ask about the class, and
        # whatever is queued behind it is processed inside that wait
        ("thing-cold/1obj/3sends/shapes=one", "thing-cold", 1, 3, 1, False, 40),
        ("thing-cold/1obj/1send/fetch=3/shapes=one", "thing-cold", 1, 1, 0, False, 40),
    ],
    "thorough": [
        ("list/1obj/4sends", "list", 1, 4, 2, True, 60),
        ("list/2obj/2sends+sync/shapes=one,tup2", "list", 2, 2, 1, True, 60),
        ("list/2obj/3sends/shapes=one", "list", 2, 3, 0, False, 60),
        ("thing/1obj/3sends", "thing", 1, 3, 1, True, 60),
        ("thing/2obj/2sends/shapes=one,tup2", "thing", 2, 2, 0, False, 60),
        ("list/1obj/2sends/fetch=2/shapes=one,tup2", "list", 1, 2, 1, False, 60),
        ("list/2obj/1send/fetch=3/shapes=one", "list", 2, 1, 0, False, 60),
        ("thing/1obj/1send/fetch=2/shapes=one", "thing", 1, 1, 1, False, 60),
        ("list/1obj/2sends/badsend=2/shapes=one,tup2", "list", 1, 2, 1, False, 60),
        ("thing/1obj/2sends/badsend=1/shapes=one", "thing", 1, 2, 0, False, 60),
        ("thing-cold/1obj/3sends/shapes=one,tup2", "thing-cold", 1, 3, 1, True, 60),
        ("thing-cold/2obj/2sends/shapes=one", "thing-cold", 2, 2, 0, False, 60),
    ],
}


def explore_config(cfg, max_seconds=None):
    """BFS with the probes folded into the expansion of every NEW state (probed on throw-away rebuilds)."""
    name, kind, nobj, ms, mb, ss, depth = cfg
    env.silence_unraisable()
    expand = make_expand(kind, nobj, ms, mb, ss)
    probe = make_probe(kind, nobj, ms, mb, ss)
    probed = {}

    def expand_and_probe(hist, ev):
        key, enabled, viols, info = expand(hist, ev)
        return key, enabled, viols, info

    def init_events():
        r = _run_history(kind, nobj, [], ms, mb, ss, "key")
        assert r[0] == "ok", r
        return r[1][0], r[1][1]

    k0, ev0 = init_events()
    res = bfs.bfs(expand_and_probe, ev0, depth, init_key=k0, max_seconds=max_seconds, stop=lambda sig: True)
    return res, probe


def probe_states(res_states, probe):
    outs = runner.pmap(probe, [(h,) for h in res_states], chunksize=4)
    viols = []
    for h, v in zip(res_states, outs):
        for sig, text in v:
            viols.append((sig, "after history %r: %s" % (list(h), text), list(h)))
    return viols


def set_shapes(name):
    ACTIVE_FETCH[0] = 0
    ACTIVE_BAD[0] = 0
    ACTIVE_SHAPES[0] = SHAPES
    for part in name.split("/"):
        if part.startswith("shapes="):
            ACTIVE_SHAPES[0] = tuple(part[7:].split(","))
        if part.startswith("fetch="):
            ACTIVE_FETCH[0] = int(part[6:])
        if part.startswith("badsend="):
            ACTIVE_BAD[0] = int(part[8:])


def run_config(cfg, max_seconds):
    name, kind, nobj, ms, mb, ss, depth = cfg
    set_shapes(name)
    env.silence_unraisable()
    expand = make_expand(kind, nobj, ms, mb, ss)
    probe = make_probe(kind, nobj, ms, mb, ss)
    r0 = _run_history(kind, nobj, [], ms, mb, ss, "key")
    assert r0[0] == "ok", r0
    k0, ev0 = r0[1][0], r0[1][1]
    new_states = [()]

    def expand2(hist, ev):
        return expand(hist, ev)

    # level-synchronous BFS that also records a representative history per new state, for the probes
    import time as _t
    t0 = _t.time()
    res = bfs.BFSResult()
    seen = {k0}
    frontier = [((), list(ev0))]
    depth_now = 0
    viol = []
    while frontier and depth_now < depth:
        depth_now += 1
        tasks = [(h, ev) for h, evs in frontier for ev in evs]
        outs = runner.pmap(expand2, tasks, chunksize=4)
        nxt = []
        fresh = []
        for (h, ev), (key, enabled, viols, info) in zip(tasks, outs):
            res.transitions += 1
            h2 = h + (ev,)
            for sig, text in viols:
                viol.append((sig, text, list(h2)))
            if key in seen:
                continue
            seen.add(key)
            fresh.append(h2)
            if enabled:
                nxt.append((h2, list(enabled)))
            else:
                res.terminal += 1
        res.levels.append((depth_now, len(tasks), len(fresh)))
        # probes on every new state of this level
        live = [h for h in fresh if ("close",) not in h]
        viol.extend(probe_states(live, probe))
        res.states = len(seen)
        res.depth = depth_now
        if len(res.samples) < 3 and fresh:
            res.samples.append({"history": list(fresh[-1])})
        frontier = nxt
        if viol:
            break
        if max_seconds is not None and _t.time() - t0 > max_seconds:
            res.caps.append("max_seconds=%s" % max_seconds)
            break
    if frontier and depth_now >= depth:
        res.caps.append("depth=%d" % depth)
    res.wall = _t.time() - t0
    res.violations = viol
    return res


# ------------------------------------------------------------------ owner-side threads (the table is shared by them)
_watched = [False]


def watch_table_lines():
    if _watched[0]:
        return
    from mc import trace
    from rpyc.lib import colls
    from rpyc.core.protocol import Connection
    C = colls.RefCountingColl
    trace.watch([C.add, C.decref, C.__getitem__, C.clear, Connection._box, Connection._handle_del])
    _watched[0] = True


def table_race_run(variant):
    """two threads of the OWNER use the connection at once: 'resend-vs-release' - one sends object X again while the other
    serves the peer's release notice for the last proxy of X; 'resend-vs-resend' - both send X (first time lent).
    Afterwards the peer's reference must work, and once it is dropped the table must let go of X."""
    from mc import explore   # noqa

    def run(choices, want_state, cut_fn):
        gc.disable()
        osvc, psvc = OwnerService(), PeerService()
        w = pair.World(osvc, psvc)
        box = {}
        X = [7]

        def main():
            sch = S.current_sched()
            sch.armed = False
            c, s = w.cconn, w.sconn

            def with_peer(fn, other):
                """run fn in a thread of one side while this thread serves the other side"""
                out = {}

                def body():
                    try:
                        out["v"] = fn()
                    except Exception as ex:   # noqa
                        out["e"] = ex
                t = S.SimThread(target=body, name="setup")
                t.start()
                for _ in range(200):
                    if not t.is_alive():
                        break
                    other.serve(0.05)
                t.join(5)
                if "e" in out:
                    raise out["e"]
                return out.get("v")

            proot = with_peer(lambda: c.root, s)
            take = with_peer(lambda: proot.take, s)
            a_take = _rpyc.async_(take)
            if variant == "resend-vs-release":
                with_peer(lambda: take(X), s)
                del psvc.held[:]                 # the peer drops its only proxy: the release notice waits in O's inbox
            res = []
            ts = [S.SimThread(target=lambda: res.append(a_take(X)), name="sender")]
            if variant == "resend-vs-release":
                ts.append(S.SimThread(target=lambda: c.serve(0), name="server-of-release"))
            else:
                ts.append(S.SimThread(target=lambda: res.append(a_take(X)), name="sender2"))
            sch.armed = True
            for t in ts:
                t.start()
            for t in ts:
                t.join(50)
            sch.armed = False
            box["thread_exc"] = [repr(t.lt.exc) for t in ts if getattr(t, "lt", None) is not None and t.lt.exc is not None]
            # the peer processes what was sent; the owner whatever is still waiting
            for _ in range(4):
                s.serve(0.05)
                c.serve(0.05)
            held = list(psvc.held)
            box["held"] = len(held)
            use = []
            for p in held:
                try:
                    use.append(with_peer(lambda: p[0], c))
                except Exception as ex:    # noqa
                    use.append("raised:" + type(ex).__name__)
            box["use"] = use
            idp = [k for k in c._local_objects._dict if k[2] == id(X)]
            box["in_table_while_held"] = bool(idp)
            del held[:]
            p = None
            del psvc.held[:]
            del res[:]
            for _ in range(4):
                c.serve(0.05)
                s.serve(0.05)
            box["in_table_after_drop"] = any(k[2] == id(X) for k in c._local_objects._dict)
            box["done"] = True

        def state_fn(sc):
            return canon.state_key(sc, [w.cconn, w.a, w.b], canon.DEFAULT_PREFIXES)

        sch = S.Scheduler(choices, state_fn=state_fn if want_state else None, cut_fn=cut_fn, sync_points=True, io_points=True,
                          horizon=1000, max_steps=100000)
        sch.run(main)
        if sch.outcome == "cut":
            w.shutdown()
            return sch, {"violations": [], "outcome_key": None}
        viol = []
        if sch.outcome != "done" or not box.get("done"):
            viol.append(("table-race:%s:scheduler:%s" % (variant, sch.outcome), repr(sch.deadlock_info) + repr(sch.threads[0].exc)))
        else:
            want = 1 if variant == "resend-vs-release" else 2
            if box["thread_exc"]:
                viol.append(("table-race:%s:owner-thread-raised" % variant, repr(box["thread_exc"])))
            if box["held"] != want:
                viol.append(("table-race:%s:peer-holds-%d-references" % (variant, box["held"]), "expected %d" % want))
            if any(u != 7 for u in box["use"]):
                viol.append(("table-race:%s:live-proxy-unusable" % variant, repr(box["use"])))
            if not box["in_table_while_held"]:
                viol.append(("table-race:%s:object-missing-from-table-while-peer-holds-it" % variant, ""))
            if box["in_table_after_drop"]:
                viol.append(("table-race:%s:leak-at-quiescence" % variant, ""))
        ok = (sch.outcome, box.get("held"), tuple(box.get("use", ())), box.get("in_table_while_held"), box.get("in_table_after_drop"))
        w.shutdown()
        return sch, {"violations": viol, "outcome_key": ok}
    return run


def explore_table_race(res, tier):
    from mc import explore
    watch_table_lines()
    for variant in ("resend-vs-release", "resend-vs-resend"):
        ex = explore.ParallelExplorer(table_race_run(variant), bound=2 if tier == "quick" else 3, max_seconds=150 if tier == "quick" else 1500,
                                      stop_on_violation=True)
        ex.explore()
        name = "owner-threads/%s" % variant
        res.add_explorer(name, ex)
        res.bounds[name] = "preemptions<=%s" % ex.stats.bound_completed
        if ex.violations:
            return


def replay(rep):
    if rep.get("part", "").startswith("owner-threads/"):
        env.silence_unraisable()
        watch_table_lines()
        variant = rep["part"].split("/")[1]
        a = table_race_run(variant)(rep["choices"], False, None)[1]["violations"]
        b = table_race_run(variant)(rep["choices"], False, None)[1]["violations"]
        if [x[0] for x in a] != [x[0] for x in b]:
            print("REPLAY-DIVERGENCE", a, b)
            return 2
        print("replayed -> %r" % (a[:3],))
        return 1 if a else 0
    cfg = [c for c in CONFIGS["quick"] + CONFIGS["thorough"] if c[0] == rep["part"]][0]
    name, kind, nobj, ms, mb, ss, depth = cfg
    set_shapes(name)
    env.silence_unraisable()
    hist = [tuple(e) for e in rep["history"]]
    outs = []
    for _ in range(2):
        r = _run_history(kind, nobj, hist, ms, mb, ss, "key")
        v = []
        if r[0] == "ok":
            v = list(r[1][2]) + make_probe(kind, nobj, ms, mb, ss)(hist)
        outs.append((r[0], repr(r[1:])[:400] if r[0] != "ok" else "", [x[0] for x in v]))
    if outs[0] != outs[1]:
        print("REPLAY-DIVERGENCE", outs)
        return 2
    print("replayed %s history=%r -> %r" % (name, hist, outs[0]))
    return 1 if (outs[0][0] != "ok" or outs[0][2]) else 0


def main(tier, replay_obj=None):
    if replay_obj is not None:
        return replay(replay_obj)
    res = runner.Result(PID, "model_checking", tier,
                        "explicit-state BFS over delivery-controlled histories {send k (4 shapes, async), sync send, drop, pass back, "
                        "deliver c->s, deliver s->c, close} on a real Connection pair, de-duplicated by a canonical state; every new "
                        "state is probed on throw-away rebuilds (use every live proxy + close; drop everything + deliver to quiescence); "
                        "distinct = distinct canonical states")
    cap = 200 if tier == "quick" else 3000
    for cfg in CONFIGS[tier]:
        r = run_config(cfg, cap)
        res.parts[cfg[0]] = r.as_dict()
        res.states += r.states
        res.transitions += r.transitions
        res.evaluations += r.transitions + 2 * r.states
        res.traces += r.transitions + 2 * r.states
        res.distinct_count_extra += r.states
        for s in r.samples:
            res.add_sample(dict(part=cfg[0], **s))
        if r.caps:
            res.caps.extend("%s:%s" % (cfg[0], c) for c in r.caps)
        for sig, text, hist in r.violations:
            res.violation(sig, text, {"part": cfg[0], "history": hist})
        if r.violations:
            break
    if not res.violations:
        env.silence_unraisable()
        explore_table_race(res, tier)
    res.assumptions = [
        "each side processes its incoming frames in FIFO order; delivery of the two directions is interleaved arbitrarily",
        "sequence numbers are dropped from the canonical state (opaque correlation tokens; futures are isomorphic under renaming)",
        "proxy finalizers run at the reference drop the harness causes (gc disabled during executions)",
        "user-class variants: 'thing' warms the peer's class cache in setup, 'thing-cold' does not (the first delivery issues a nested class inspection, during which queued messages are processed)",
    ]
    return res.finish()
