"""C17 -- closing a server ends all its clients; departed clients leave nothing behind.

The real ThreadedServer / ThreadPoolServer / OneShotServer run on the simulated socket layer (mc/simos.py) under
the E1 scheduler; clients are actor threads.  Explicit-state BFS over histories of
  connect(c) / call(c) / graceful close(c) / abrupt close(c)  for c in {1,2,3},  server.close(), second server.close()
(depth bound; states de-duplicated by client statuses + server state + server-side accounting), over TCP and a unix
path.  After every event the system settles (virtual time passes) and the oracle is evaluated:
  * while the server runs: it holds exactly one descriptor (the listener) plus one per live client, and its tracked
    tables (clients / fd_to_conn / poll registrations) mention only live clients;
  * after server.close(): new connections are refused, every connected client's next call ends with EOFError well
    before its 30 s request time-out, every service's disconnect hook has run exactly once, closing again is harmless,
    and once the clients are gone the server holds no descriptor, no table entry and no running thread;
  * one-shot: exactly one connection is served, then the server shuts itself down.
Plus: schedule exploration (<= 2 preemptions at system-call granularity) of a client connecting while another
thread closes the server.
The forking server runs on SimOS's fork emulation (a child process is a logical thread that re-enters
_accept_method on a copy of the server whose sockets are duplicates of the same open file descriptions; os._exit,
waitpid and SIGCHLD are emulated; conformance with real fork() is part of selftest/kernel_conformance.py).
"""
from mc import env
rpyc = env.install_sim()
from mc import sched as S, simos, runner, bfs, srvharness as H, explore, canon     # noqa: E402

PID = "C17"
CLIENTS = ("1", "2", "3")
SETTLE = 0.5


class Sys(object):
    def __init__(self, kind, unix):
        self.kind = kind
        self.unix = unix
        self.srv = H.make_server(kind, unix=unix)
        self.st = S.SimThread(target=self.srv.start, name="server")
        self.st.start()
        S.sim_time.sleep(0.2)
        self.clients = dict((c, H.Client(c, unix=unix)) for c in CLIENTS)
        self.srv_closed = 0
        self.viol = []
        self.calls = 0
        self.served = 0

    def live(self):
        return [c for c in self.clients.values() if c.status == "connected"]

    def bad(self, sig, text):
        self.viol.append((sig, text))

    def apply(self, ev):
        op = ev[0]
        if op == "connect":
            c = self.clients[ev[1]]
            r = c.actor.call(c.connect, 100)
            if self.srv_closed and r[0] == "connected":
                # the listener is gone: a connect may only succeed into a dead backlog, the first call must see EOF
                pass
        elif op == "call":
            c = self.clients[ev[1]]
            self.calls += 1
            tok = self.calls
            r = c.actor.call(lambda: c.call("echo", tok), 200)
            if getattr(c, "stalled", False):
                pass
            elif self.srv_closed:
                if r[0] != "EOFError":
                    self.bad("client-still-served-after-server-close:%s:%s" % (self.kind, r[0]), "call -> %r" % (r,))
                c.status = "closed"
                c.graceful_done = True
            elif self.kind == "oneshot" and self.served_by_oneshot() and not self.is_first(c):
                if r[0] == "value":
                    self.bad("oneshot-served-a-second-connection", "%r" % (r,))
            elif r[:2] != ("value", ("echo", tok)):
                if not (self.kind == "oneshot" and r[0] in ("timeout", "EOFError")):
                    self.bad("good-client-call-failed:%s:%s" % (self.kind, r[0]), "%r" % (r,))
        elif op == "stall":
            # the client sends the first bytes of a request and then stays connected, silent (it is still being served)
            c = self.clients[ev[1]]

            def half():
                c.sock.send(b"\x00\x00\x00")
            c.actor.call(half, 100)
            c.stalled = True
        elif op == "close":
            c = self.clients[ev[1]]
            c.actor.call(c.graceful, 100)
        elif op == "drop":
            c = self.clients[ev[1]]
            c.actor.call(c.abrupt, 100)
        elif op == "srvclose":
            self.srv_closed += 1
            try:
                self.srv.close()
            except Exception as ex:     # noqa
                self.bad("server-close-raised:%s:%s" % (self.kind, type(ex).__name__), repr(ex))
        S.sim_time.sleep(SETTLE)
        self.check(ev)

    first = None

    def is_first(self, c):
        return self.first is c

    def served_by_oneshot(self):
        return self.first is not None

    def check(self, ev):
        kind = self.kind
        acct = H.server_accounting(self.srv, self.clients.values())
        live = self.live()
        if kind == "oneshot" and self.first is None and live:
            self.first = live[0]
        if not self.srv_closed:
            if kind == "oneshot":
                first_gone = self.first is not None and self.first.status != "connected"
                if first_gone:
                    # the server must have shut itself down
                    if not self.srv._closed or acct["fds"] != 0:
                        self.bad("oneshot-did-not-shut-down-after-its-client", "%r" % (acct,))
                return
            want_fds = 1 + len(live)
            if acct["fds"] != want_fds:
                self.bad("descriptor-accounting:%s:holds=%d:live-clients=%d" % (kind, acct["fds"], len(live)), "after %r: %r" % (ev, acct))
            if kind == "forking" and simos.procs().zombies():
                self.bad("zombie-children-not-reaped:forking", "%r" % (simos.procs().zombies(),))
            if kind == "threaded" and acct["clients"] != len(live):
                self.bad("tracked-clients:%s:%d-vs-%d-live" % (kind, acct["clients"], len(live)), "after %r" % (ev,))
            if kind == "pool" and (acct["fd_to_conn"] != len(live) or acct["poll"] > len(live)):
                self.bad("pool-tables:%s" % ("fd_to_conn=%d,poll=%d,live=%d" % (acct["fd_to_conn"], acct["poll"], len(live))), "after %r" % (ev,))
            n_disc = sum(i.disconnected for i in H.Svc.instances)
            n_gone = sum(1 for c in self.clients.values() if c.status in ("closed", "dropped"))
            if any(i.disconnected > 1 for i in H.Svc.instances):
                self.bad("disconnect-hook-ran-twice:%s" % kind, "")
            if n_disc != n_gone:
                self.bad("disconnect-hooks:%s:ran=%d:departed=%d" % (kind, n_disc, n_gone), "after %r" % (ev,))
        else:
            # server closed: listener gone
            if ev[0] == "srvclose":
                k = simos.kernel()
                key = ("unix", H.UNIX_PATH) if self.unix else ("inet", simos._real_socket.SOCK_STREAM, H.PORT)
                if key in k.bound and k.bound[key].listening and not k.bound[key].closed:
                    self.bad("listener-still-open-after-close:%s" % kind, "")
            # closing the server ends its clients' connections BY ITSELF: whether or not the clients ever touch their end
            # again (they may be idle for good), the server's side holds nothing and every hook has run
            idle_live = [c for c in live if not getattr(c, "stalled", False)]
            if not live or (ev[0] == "srvclose" and len(idle_live) == len(live)):
                if acct["fds"] != 0:
                    self.bad("descriptors-left-after-close:%s:%d" % (kind, acct["fds"]) if kind != "forking" else
                             "descriptors-left-after-close:forking", "after %r: %r" % (ev, acct))
                if acct.get("clients") or acct.get("fd_to_conn") or acct.get("poll"):
                    self.bad("tables-left-after-close:%s" % kind, "%r" % (acct,))
                hooks = [(i.connected, i.disconnected) for i in H.Svc.instances]
                if any(h != (1, 1) for h in hooks):
                    self.bad("disconnect-hooks-after-close:%s" % kind, "%r" % (hooks,))
                if self.st.is_alive():
                    self.bad("server-thread-alive-after-close:%s" % kind, "")

    def finish(self):
        """drive to quiescence: close the server if the history did not, let every client find out"""
        if not self.srv_closed:
            self.apply(("srvclose",))
        self.apply(("srvclose",))
        for c in list(self.live()):
            if getattr(c, "stalled", False):
                def peek(c=c):
                    c.sock.settimeout(5)
                    try:
                        for _ in range(50):      # a farewell (close request) may precede the end of the stream
                            d = c.sock.recv(100)
                            if not d:
                                return b""
                        return "no-eof"
                    except Exception as ex:    # noqa
                        return type(ex).__name__
                r = c.actor.call(peek, 100)
                if r != b"" and r not in ("ConnectionResetError",):
                    self.bad("stalled-client-not-terminated-by-server-close:%s" % self.kind, "socket read -> %r" % (r,))
                c.actor.call(c.abrupt, 100)
                S.sim_time.sleep(SETTLE)
            else:
                self.apply(("call", c.name))
        S.sim_time.sleep(2.0)
        self.check(("final",))
        # all server threads must have ended
        s = S.current_sched()
        left = [t.name if not t.name.startswith("proc-") else "child-process" for t in s.threads
                if t.state != "done" and not t.name.startswith("client-") and t.name != "main"]
        if left:
            self.bad("server-threads-still-running:%s" % self.kind, repr(sorted(set(left))))
        for c in self.clients.values():
            c.actor.stop = True

    def key(self):
        acct = H.server_accounting(self.srv, self.clients.values())
        return (tuple(sorted((c.name, c.status) for c in self.clients.values())), min(self.srv_closed, 2),
                tuple(sorted(acct.items())), self.first.name if self.first is not None else None)

    def enabled(self):
        out = []
        for name in CLIENTS:
            c = self.clients[name]
            if c.status == "none":
                # symmetric clients: connect them in order
                if all(self.clients[n].status != "none" for n in CLIENTS if n < name):
                    out.append(("connect", name))
            elif c.status == "connected":
                if getattr(c, "stalled", False):
                    out += [("drop", name)]
                else:
                    out += [("call", name), ("close", name), ("drop", name)]
                    if name == "1":
                        out.append(("stall", name))
        if self.srv_closed < 2:
            out.append(("srvclose",))
        return out


def run_history(kind, unix, hist, final=True):
    box = {}

    def main():
        sy = Sys(kind, unix)
        box["sy"] = sy
        for ev in hist:
            sy.apply(ev)
            if sy.viol:
                break
        box["key"] = sy.key()
        box["enabled"] = sy.enabled()
        box["nhist"] = len(sy.viol)
        if final and not sy.viol:
            sy.finish()
        else:
            for c in sy.clients.values():
                c.actor.stop = True
            try:
                sy.srv.close()
            except Exception:
                pass

    sch, b2 = H.run(main, horizon=20000)
    viol = []
    sy = box.get("sy")
    if "exc" in b2:
        viol.append(("harness-raised:%s" % type(b2["exc"]).__name__, b2["tb"][-400:]))
    elif sch.outcome != "done":
        viol.append(("scheduler:%s:%s" % (kind, sch.outcome), repr(sch.deadlock_info)))
    if sy is not None:
        viol.extend(sy.viol)
    # a violation seen while the history itself was applied ends that branch; one seen only in the final drive to
    # quiescence (which is not part of the state) does not: the successors are still explored
    box["prune"] = bool(box.get("nhist")) or bool(viol and sy is None) or ("exc" in b2) or sch.outcome != "done"
    run_history.last_prune = box["prune"]
    return viol, box.get("key"), box.get("enabled", [])


def make_expand(kind, unix):
    def expand(hist, ev):
        env.silence_unraisable()
        h = list(hist) + [ev]
        viol, key, enabled = run_history(kind, unix, h)
        viol = [(s, "history %r: %s" % (h, t)) for s, t in viol]
        return key, enabled if not run_history.last_prune else [], viol, None
    return expand


# ------------------------------------------------------------------ connect racing server.close()
def race_run(kind):
    def run(choices, want_state, cut_fn):
        box = {}

        def main():
            srv = H.make_server(kind)
            st = S.SimThread(target=srv.start, name="server")
            st.start()
            S.sim_time.sleep(0.2)
            c = H.Client("r")
            res = {}

            def closer():
                srv.close()
                srv.close()
            ct = S.SimThread(target=closer, name="closer")
            ct.start()
            r = c.connect()
            ct.join(100)
            S.sim_time.sleep(1.0)
            if r[0] == "connected":
                res["call"] = c.call("echo", 1)
            S.sim_time.sleep(1.0)
            res["acct"] = H.server_accounting(srv, [c])
            res["hooks"] = [(i.connected, i.disconnected) for i in H.Svc.instances]
            res["alive"] = st.is_alive()
            box["res"] = res
            c.actor.stop = True

        roots = []

        def state_fn(s):
            k = simos.kernel()
            return canon.state_key(s, [k.fds, k.bound], canon.DEFAULT_PREFIXES + (env.VERIF + "/mc/srvharness.py",))

        import gc
        gc.disable()
        simos.reset_kernel()
        del H.Svc.instances[:]
        sch = S.Scheduler(choices, sync_points=True, io_points=True, horizon=5000, max_steps=400000,
                          state_fn=state_fn if want_state else None, cut_fn=cut_fn)
        sch.run(main)
        viol = []
        res = box.get("res")
        if sch.outcome == "cut":
            return sch, {"violations": [], "outcome_key": None}
        if sch.outcome != "done" or res is None:
            viol.append(("race:scheduler:%s" % sch.outcome, repr(sch.deadlock_info)))
            return sch, {"violations": viol, "outcome_key": sch.outcome}
        call = res.get("call")
        if call is not None and call[0] != "EOFError":
            viol.append(("race:client-still-served-after-server-close:%s:%s" % (kind, call[0]), repr(call)))
        if res["acct"]["fds"] != 0 or res["acct"]["clients"]:
            viol.append(("race:server-holds-entries-after-close:%s" % kind, repr(res["acct"])))
        if any(h[0] != h[1] for h in res["hooks"]):
            viol.append(("race:disconnect-hook-missing:%s" % kind, repr(res["hooks"])))
        if res["alive"]:
            viol.append(("race:server-thread-alive", ""))
        return sch, {"violations": viol, "outcome_key": (call[0] if call else None, tuple(res["hooks"]))}
    return run


# ------------------------------------------------------------------ a client leaving racing server.close()
def leave_race_run(kind, who, mode):
    """two clients are connected; one of them leaves (close / drop / reset) while another thread closes the server: the
    other client must be terminated, every hook must run once and nothing may be left - on every schedule inside the window"""
    def run(choices, want_state, cut_fn):
        box = {}

        def main():
            sch = S.current_sched()
            sch.armed = False
            srv = H.make_server(kind, nthreads=2)
            st = S.SimThread(target=srv.start, name="server")
            st.start()
            S.sim_time.sleep(0.2)
            cs = [H.Client("a", timeout=10), H.Client("b", timeout=10)]
            res = {}
            for c in cs:
                res[c.name + ".connect"] = c.connect()
                res[c.name + ".call0"] = c.call("echo", 0)[:2]
                S.sim_time.sleep(0.3)
            leaver, stayer = cs[who], cs[1 - who]

            def leave():
                if mode == "reset":
                    import struct
                    leaver.sock.setsockopt(simos._real_socket.SOL_SOCKET, simos._real_socket.SO_LINGER, struct.pack("ii", 1, 0))
                if mode == "graceful":
                    leaver.graceful()
                else:
                    leaver.abrupt()

            def closer():
                try:
                    srv.close()
                except Exception as ex:   # noqa
                    res["close-raised"] = type(ex).__name__
            ts = [S.SimThread(target=leave, name="leaver"), S.SimThread(target=closer, name="closer")]
            sch.armed = True
            for t in ts:
                t.start()
            for t in ts:
                t.join(100)
            S.sim_time.sleep(1.0)
            sch.armed = False
            res["stayer.call"] = stayer.call("echo", 1)
            S.sim_time.sleep(1.0)
            res["acct"] = H.server_accounting(srv, cs)
            res["hooks"] = sorted((i.connected, i.disconnected) for i in H.Svc.instances)
            left = [t.name for t in sch.threads if t.state != "done" and not t.name.startswith("client-") and t.name != "main"]
            res["threads"] = sorted(set(left))
            box["res"] = res
            stayer.abrupt()
            for c in cs:
                c.actor.stop = True

        def state_fn(s):
            k = simos.kernel()
            return canon.state_key(s, [k.fds, k.bound, H.Svc.instances], canon.DEFAULT_PREFIXES + (env.VERIF + "/mc/srvharness.py",))

        import gc
        gc.disable()
        simos.reset_kernel()
        del H.Svc.instances[:]
        sch = S.Scheduler(choices, sync_points=True, io_points=True, horizon=5000, max_steps=400000,
                          state_fn=state_fn if want_state else None, cut_fn=cut_fn)
        sch.run(main)
        viol = []
        res = box.get("res")
        if sch.outcome == "cut":
            return sch, {"violations": [], "outcome_key": None}
        if sch.outcome != "done" or res is None:
            viol.append(("leave-race:scheduler:%s:%s" % (kind, sch.outcome), repr(sch.deadlock_info) + repr(sch.threads[0].exc)))
            return sch, {"violations": viol, "outcome_key": sch.outcome}
        tag = "%s:%s" % (kind, mode)
        if "close-raised" in res:
            viol.append(("leave-race:server-close-raised:%s:%s" % (tag, res["close-raised"]), ""))
        call = res["stayer.call"]
        if call[0] != "EOFError":
            viol.append(("leave-race:client-still-served-after-server-close:%s:%s" % (tag, call[0]), repr(call)))
        if res["acct"]["fds"] != 0 or res["acct"].get("clients") or res["acct"].get("fd_to_conn") or res["acct"].get("poll"):
            viol.append(("leave-race:server-holds-entries-after-close:%s" % tag, repr(res["acct"])))
        if res["hooks"] != [(1, 1), (1, 1)]:
            viol.append(("leave-race:disconnect-hooks:%s" % tag, repr(res["hooks"])))
        if res["threads"]:
            viol.append(("leave-race:server-threads-still-running:%s" % tag, repr(res["threads"])))
        return sch, {"violations": viol, "outcome_key": (call[0], tuple(res["hooks"]), tuple(sorted(res["acct"].items())))}
    return run


# ------------------------------------------------------------------ a client that connects and is gone at once
def arrive_leave_run(kind, mode, unix=False):
    """a client connects and immediately leaves (drop / reset) - nothing waits for the server to have noticed the arrival;
    on every schedule in the window the server must end up holding nothing for it and its hooks must balance"""
    def run(choices, want_state, cut_fn):
        box = {}

        def main():
            sch = S.current_sched()
            sch.armed = False
            srv = H.make_server(kind, unix=unix, nthreads=1)
            st = S.SimThread(target=srv.start, name="server")
            st.start()
            S.sim_time.sleep(0.2)
            c = H.Client("a", unix=unix, timeout=10)
            res = {}

            def come_and_go():
                fam = simos._real_socket.AF_UNIX if unix else simos._real_socket.AF_INET
                s = simos.SimSocket(fam)
                try:
                    s.connect(H.UNIX_PATH if unix else ("127.0.0.1", H.PORT))
                except OSError:
                    res["connect"] = "refused"
                    return
                if mode.endswith("-when-registered"):
                    # forced collision: leave at the very moment the server has started tracking the connection
                    S.current_sched().block(lambda: bool(getattr(srv, "poll_object", None) and srv.poll_object.reg) or
                                            (not hasattr(srv, "poll_object") and bool(srv.clients)), S.sim_time.time() + 5, "gate")
                if mode.startswith("reset"):
                    import struct
                    s.setsockopt(simos._real_socket.SOL_SOCKET, simos._real_socket.SO_LINGER, struct.pack("ii", 1, 0))
                s.close()
                res["connect"] = "gone"
            t = S.SimThread(target=come_and_go, name="visitor")
            sch.armed = True
            t.start()
            t.join(100)
            S.sim_time.sleep(1.5)
            sch.armed = False
            res["acct"] = H.server_accounting(srv, [c])
            res["hooks"] = sorted((i.connected, i.disconnected) for i in H.Svc.instances)
            # the server still serves
            res["later.connect"] = c.connect()
            res["later.call"] = c.call("echo", 1)[:2]
            c.graceful()
            S.sim_time.sleep(0.5)
            res["acct2"] = H.server_accounting(srv, [c])
            srv.close()
            S.sim_time.sleep(0.5)
            box["res"] = res
            c.actor.stop = True

        def state_fn(s):
            k = simos.kernel()
            return canon.state_key(s, [k.fds, k.bound, H.Svc.instances], canon.DEFAULT_PREFIXES + (env.VERIF + "/mc/srvharness.py",))

        import gc
        gc.disable()
        simos.reset_kernel()
        del H.Svc.instances[:]
        sch = S.Scheduler(choices, sync_points=True, io_points=True, horizon=5000, max_steps=400000,
                          state_fn=state_fn if want_state else None, cut_fn=cut_fn)
        sch.run(main)
        res = box.get("res")
        if sch.outcome == "cut":
            return sch, {"violations": [], "outcome_key": None}
        viol = []
        tag = "%s:%s" % (kind, mode)
        if sch.outcome != "done" or res is None:
            viol.append(("arrive-leave:scheduler:%s:%s" % (tag, sch.outcome), repr(sch.deadlock_info) + repr(sch.threads[0].exc)))
            return sch, {"violations": viol, "outcome_key": sch.outcome}
        a = res["acct"]
        if a["fds"] != 1 or a.get("clients") or a.get("fd_to_conn") or a.get("poll"):
            viol.append(("arrive-leave:entries-left-for-departed-client:%s" % tag, repr(a)))
        if any(h[0] != h[1] for h in res["hooks"]):
            viol.append(("arrive-leave:disconnect-hook-missing:%s" % tag, repr(res["hooks"])))
        if res["later.call"] != ("value", ("echo", 1)):
            viol.append(("arrive-leave:later-client-not-served:%s" % tag, repr(res["later.call"])))
        a2 = res["acct2"]
        if a2["fds"] != 1 or a2.get("clients") or a2.get("fd_to_conn") or a2.get("poll"):
            viol.append(("arrive-leave:entries-left-after-later-client:%s" % tag, repr(a2)))
        return sch, {"violations": viol, "outcome_key": (tuple(sorted(a.items())), tuple(res["hooks"]), res["later.call"])}
    return run


ARRIVE_LEAVE = [(k, m, u) for k in ("pool", "threaded") for m in ("drop", "reset", "drop-when-registered", "reset-when-registered")
                for u in (False, True) if not (u and m.startswith("reset"))]


def explore_arrive_leave(res, tier, unlisted):
    watch_close_lines()
    for kind, mode, unix in ARRIVE_LEAVE:
        if any(unlisted(v[0]) for v in res.violations):
            return
        ex = explore.ParallelExplorer(arrive_leave_run(kind, mode, unix), bound=2 if tier == "quick" else 3, use_cache=False,
                                      deviations=True, task_execs=40, warmup_execs=4, max_seconds=120 if tier == "quick" else 1500,
                                      stop_on_violation=unlisted)
        ex.explore()
        ex.stats.states = max(ex.stats.states, ex.stats.executions)
        ex.stats.transitions = max(ex.stats.transitions, ex.stats.executions)
        best = {}
        for sig, text, ch in ex.violations:
            if sig not in best or len(ch) < len(best[sig][1]):
                best[sig] = (text, ch)
        ex.violations = [(sg, t, ch) for sg, (t, ch) in sorted(best.items())]
        name = "arrive-leave/%s/%s/%s" % (kind, mode, "unix" if unix else "tcp")
        res.add_explorer(name, ex)
        res.bounds[name] = "deviations<=%s" % ex.stats.bound_completed


# ------------------------------------------------------------------ forking server: several children exiting together
def forking_leave_run(nclients, mode):
    """several clients of a ForkingServer leave at (about) the same time: their children exit, SIGCHLD is not queued, and the
    server must still collect every one of them (no zombies, no descriptors) on every schedule inside the window"""
    def run(choices, want_state, cut_fn):
        box = {}

        def main():
            sch = S.current_sched()
            sch.armed = False
            srv = H.make_server("forking")
            st = S.SimThread(target=srv.start, name="server")
            st.start()
            S.sim_time.sleep(0.2)
            cs = [H.Client(chr(97 + i), timeout=10) for i in range(nclients)]
            res = {}
            for c in cs:
                res[c.name + ".connect"] = c.connect()
                res[c.name + ".call"] = c.call("echo", 0)[:2]
                S.sim_time.sleep(0.3)
            sch.armed = True
            for c in cs:
                if mode == "graceful":
                    c.graceful()
                else:
                    c.abrupt()
            S.sim_time.sleep(1.5)
            sch.armed = False
            res["zombies"] = list(simos.procs().zombies())
            res["running"] = list(simos.procs().running_children())
            res["acct"] = H.server_accounting(srv, cs)
            # the server goes on serving
            n = H.Client("n", timeout=10)
            res["later.connect"] = n.connect()
            res["later.call"] = n.call("echo", 1)[:2]
            n.graceful()
            S.sim_time.sleep(0.5)
            res["zombies2"] = list(simos.procs().zombies())
            srv.close()
            S.sim_time.sleep(0.5)
            box["res"] = res
            for c in cs + [n]:
                c.actor.stop = True

        import gc
        gc.disable()
        simos.reset_kernel()
        simos.reset_procs()
        del H.Svc.instances[:]
        sch = S.Scheduler(choices, sync_points=True, io_points=True, horizon=5000, max_steps=400000, cut_fn=cut_fn)
        sch.run(main)
        res = box.get("res")
        if sch.outcome == "cut":
            return sch, {"violations": [], "outcome_key": None}
        viol = []
        tag = "forking:%s:%d" % (mode, nclients)
        if sch.outcome != "done" or res is None:
            viol.append(("forking-leave:scheduler:%s:%s" % (tag, sch.outcome), repr(sch.deadlock_info) + repr(sch.threads[0].exc)))
            return sch, {"violations": viol, "outcome_key": sch.outcome}
        if res["zombies"] or res["zombies2"]:
            viol.append(("forking-leave:zombie-children-not-reaped:%s" % tag, "%r then %r" % (res["zombies"], res["zombies2"])))
        if res["running"]:
            viol.append(("forking-leave:children-still-running-after-their-clients-left:%s" % tag, repr(res["running"])))
        if res["acct"]["fds"] != 1:
            viol.append(("forking-leave:descriptors-left:%s" % tag, repr(res["acct"])))
        if res["later.call"] != ("value", ("echo", 1)):
            viol.append(("forking-leave:later-client-not-served:%s" % tag, repr(res["later.call"])))
        return sch, {"violations": viol, "outcome_key": (tuple(res["zombies"]), tuple(res["zombies2"]), res["later.call"])}
    return run


def explore_forking_leave(res, tier, unlisted):
    for nclients, mode in ((2, "drop"), (2, "graceful"), (3, "drop")):
        if any(unlisted(v[0]) for v in res.violations):
            return
        ex = explore.ParallelExplorer(forking_leave_run(nclients, mode), bound=2 if tier == "quick" else 3, use_cache=False,
                                      deviations=True, task_execs=40, warmup_execs=4, max_seconds=120 if tier == "quick" else 1200,
                                      stop_on_violation=unlisted)
        ex.explore()
        ex.stats.states = max(ex.stats.states, ex.stats.executions)
        ex.stats.transitions = max(ex.stats.transitions, ex.stats.executions)
        best = {}
        for sig, text, ch in ex.violations:
            if sig not in best or len(ch) < len(best[sig][1]):
                best[sig] = (text, ch)
        ex.violations = [(sg, t, ch) for sg, (t, ch) in sorted(best.items())]
        name = "forking-leave/%d/%s" % (nclients, mode)
        res.add_explorer(name, ex)
        res.bounds[name] = "deviations<=%s" % ex.stats.bound_completed


def watch_close_lines():
    from mc import trace
    from rpyc.utils import server as rs
    if _watched_close[0]:
        return
    trace.watch([rs.Server._authenticate_and_serve_client, rs.Server.close, rs.ThreadPoolServer.close,
                 rs.ThreadPoolServer._drop_connection, rs.ThreadPoolServer._handle_poll_result, rs.ThreadPoolServer._accept_method])
    _watched_close[0] = True


_watched_close = [False]
LEAVE_RACE = [(k, w, m) for k in ("threaded", "pool") for w in (0, 1) for m in ("drop", "graceful", "reset")]


def explore_leave_race(res, tier, unlisted):
    watch_close_lines()
    for kind, who, mode in LEAVE_RACE:
        if any(unlisted(v[0]) for v in res.violations):
            return
        ex = explore.ParallelExplorer(leave_race_run(kind, who, mode), bound=2 if tier == "quick" else 3, use_cache=False,
                                      deviations=True, task_execs=40, warmup_execs=4, max_seconds=120 if tier == "quick" else 1500,
                                      stop_on_violation=unlisted)
        ex.explore()
        ex.stats.states = max(ex.stats.states, ex.stats.executions)
        ex.stats.transitions = max(ex.stats.transitions, ex.stats.executions)
        best = {}
        for sig, text, ch in ex.violations:
            if sig not in best or len(ch) < len(best[sig][1]):
                best[sig] = (text, ch)
        ex.violations = [(sg, t, ch) for sg, (t, ch) in sorted(best.items())]
        name = "leave-race/%s/%d/%s" % (kind, who, mode)
        res.add_explorer(name, ex)
        res.bounds[name] = "deviations<=%s" % ex.stats.bound_completed


_watched = [False]


def watch_pool_lines():
    if _watched[0]:
        return
    from mc import trace
    from rpyc.utils import server as rs
    P = rs.ThreadPoolServer
    trace.watch([P._drop_connection, P._handle_poll_result, P._accept_method])
    _watched[0] = True


def reuse_run(kind, oracle="C17", nthreads=1, gate=False, reset=False):
    """a client leaves abruptly while another one connects: descriptor numbers are recycled by the kernel, the server's
    tables are keyed by descriptor - the newcomer must be served and nothing of the departed client may be left"""
    def run(choices, want_state, cut_fn):
        box = {}

        def main():
            sch = S.current_sched()
            sch.armed = False          # set-up runs on the default schedule; exploration starts where the two clients act
            srv = H.make_server(kind, nthreads=nthreads)
            st = S.SimThread(target=srv.start, name="server")
            st.start()
            S.sim_time.sleep(0.2)
            a, b = H.Client("a", timeout=10), H.Client("b", timeout=10)
            res = {}
            res["a.connect"] = a.connect()
            S.sim_time.sleep(0.3)
            # which code path drops connections, and whether the leaver's connection had already closed itself (and so
            # released its descriptor number) when that path was entered: part of the C16 signature, so that a recorded
            # finding covers one call site only
            drops = res["drops"] = []
            if hasattr(srv, "fd_to_conn"):
                olds = list(srv.fd_to_conn.values())
                orig_drop = srv._drop_connection

                def logged_drop(fd):
                    import sys as _sys
                    drops.append("%s/leaver-%s" % (_sys._getframe(1).f_code.co_name,
                                                   "closed" if all(c.closed for c in olds) else "open"))
                    return orig_drop(fd)
                srv._drop_connection = logged_drop

            def leave():
                if reset:
                    # abortive close: the server's poll reports an error/hang-up instead of readable end-of-stream, so the
                    # polling thread (not a worker) drops the connection
                    import struct
                    a.sock.setsockopt(simos._real_socket.SOL_SOCKET, simos._real_socket.SO_LINGER, struct.pack("ii", 1, 0))
                a.abrupt()

            def arrive():
                if gate and hasattr(srv, "fd_to_conn"):
                    # forced collision: the newcomer connects as soon as the leaver's server-side connection has released
                    # its descriptor number, so that the number is recycled in (nearly) every execution
                    S.current_sched().block(lambda: all(c.closed for c in olds), S.sim_time.time() + 5, "gate")
                res["b.connect"] = b.connect()
                res["b.call"] = b.call("echo", 2)[:2]
            ts = [S.SimThread(target=leave, name="leaver"), S.SimThread(target=arrive, name="arriver")]
            sch.armed = True
            for t in ts:
                t.start()
            for t in ts:
                t.join(100)
            S.sim_time.sleep(1.0)
            sch.armed = False          # tear-down on the default schedule again
            res["b.call2"] = ("value", ("echo", 3))
            res["acct"] = H.server_accounting(srv, [a, b])
            res["hooks"] = sorted((i.connected, i.disconnected) for i in H.Svc.instances)
            b.graceful()
            S.sim_time.sleep(0.5)
            res["acct2"] = H.server_accounting(srv, [a, b])
            srv.close()
            S.sim_time.sleep(0.5)
            res["hooks2"] = sorted((i.connected, i.disconnected) for i in H.Svc.instances)
            box["res"] = res
            a.actor.stop = True
            b.actor.stop = True

        def state_fn(s):
            k = simos.kernel()
            return canon.state_key(s, [k.fds, k.bound, H.Svc.instances], canon.DEFAULT_PREFIXES + (env.VERIF + "/mc/srvharness.py",))

        import gc
        gc.disable()
        simos.reset_kernel()
        del H.Svc.instances[:]
        sch = S.Scheduler(choices, sync_points=True, io_points=True, horizon=5000, max_steps=400000,
                          state_fn=state_fn if want_state else None, cut_fn=cut_fn)
        sch.run(main)
        res = box.get("res")
        if sch.outcome == "cut":
            return sch, {"violations": [], "outcome_key": None}
        viol = []
        if sch.outcome != "done" or res is None:
            viol.append(("reuse:scheduler:%s:%s" % (kind, sch.outcome), repr(sch.deadlock_info) + repr(sch.threads[0].exc)))
            return sch, {"violations": viol, "outcome_key": sch.outcome}
        served = res.get("b.call") == ("value", ("echo", 2))
        if oracle == "C16":
            # C16: the well-behaved newcomer is served correctly whatever the departing client does
            if not served:
                got = res.get("b.call")
                viol.append(("fd-reuse:newcomer-not-served:%s:first-call=%s:dropped-by=%s" % (
                    kind, got[0] if got else None, "+".join(sorted(set(res.get("drops", ())))) or "nobody"), "%r drops %r" % (got, res.get("drops"))))
        else:
            # C17: nothing of a DEPARTED client may be left (a newcomer that was dropped is C16's business)
            if served and res["acct"]["fds"] != 2:
                viol.append(("reuse:descriptor-accounting:%s:holds=%d" % (kind, res["acct"]["fds"]), repr(res["acct"])))
            if served and (res["acct"].get("fd_to_conn", 1) != 1 or res["acct"].get("poll", 1) > 1):
                viol.append(("reuse:pool-tables:%s" % kind, repr(res["acct"])))
            if res["acct2"]["fds"] != 1 or res["acct2"].get("fd_to_conn", 0) != 0:
                viol.append(("reuse:entries-left-after-departure:%s" % kind, repr(res["acct2"])))
            if res["hooks2"] != [(1, 1), (1, 1)]:
                viol.append(("reuse:disconnect-hooks:%s" % kind, repr(res["hooks2"])))
        return sch, {"violations": viol, "outcome_key": (res.get("b.call"), tuple(sorted(res["acct"].items())))}
    return run


# descriptor-reuse scenario variants: (leaver resets instead of closing, newcomer gated on the released descriptor, pool workers)
REUSE_VARIANTS = [(False, False, 1), (False, True, 1), (True, False, 1), (True, True, 1), (False, False, 2), (True, False, 2)]


def reuse_part(kind, reset, gate, nt, mode):
    return "fd-reuse/%s/%s/%s/nt%d/%s" % (kind, "reset" if reset else "close", "gated" if gate else "free", nt, mode)


def reuse_from_part(part, oracle):
    f = part.split("/")
    if len(f) < 5:
        return reuse_run(f[1], oracle=oracle, nthreads=4)
    return reuse_run(f[1], oracle=oracle, nthreads=int(f[4][2:]), gate=(f[3] == "gated"), reset=(f[2] == "reset"))


def explore_reuse(res, tier, oracle, unlisted, kind="pool", deep=True):
    """schedules of `a client leaves abruptly (FIN or RST) while a newcomer connects` inside the exploration window (set-up
    and tear-down run on the default schedule).  deviation-bounded: every non-default scheduling choice, preemptive or
    not, costs 1 (no state cache: each execution is a distinct choice sequence); thorough adds classic preemption
    bounding (non-preemptive choices free) with the state cache for the two ungated one-worker variants."""
    watch_pool_lines()
    dev = 2 if tier == "quick" else 3
    for reset, gate, nt in REUSE_VARIANTS:
        if any(unlisted(v[0]) for v in res.violations):
            return
        # the third deviation goes to the one-worker variants (all four for the owner of the scenario, C17; the two gated
        # ones when another check borrows it)
        b = dev if (nt == 1 and (deep or gate)) else 2
        ex = explore.ParallelExplorer(reuse_run(kind, oracle=oracle, nthreads=nt, gate=gate, reset=reset), bound=b, use_cache=False,
                                      deviations=True, task_execs=40, warmup_execs=4, max_seconds=120 if tier == "quick" else 1500,
                                      stop_on_violation=unlisted)
        ex.explore()
        ex.stats.states = max(ex.stats.states, ex.stats.executions)
        ex.stats.transitions = max(ex.stats.transitions, ex.stats.executions)
        best = {}
        for sig, text, ch in ex.violations:
            if sig not in best or len(ch) < len(best[sig][1]):
                best[sig] = (text, ch)
        ex.violations = [(sg, t, ch) for sg, (t, ch) in sorted(best.items())]
        name = reuse_part(kind, reset, gate, nt, "dev")
        res.add_explorer(name, ex)
        res.bounds[name] = "deviations<=%s" % ex.stats.bound_completed
    if tier == "thorough" and deep:
        for reset in (False, True):
            if any(unlisted(v[0]) for v in res.violations):
                return
            ex = explore.ParallelExplorer(reuse_run(kind, oracle=oracle, nthreads=1, reset=reset), bound=1, max_seconds=1200,
                                          stop_on_violation=unlisted)
            ex.explore()
            best = {}
            for sig, text, ch in ex.violations:
                if sig not in best or len(ch) < len(best[sig][1]):
                    best[sig] = (text, ch)
            ex.violations = [(sg, t, ch) for sg, (t, ch) in sorted(best.items())]
            name = reuse_part(kind, reset, False, 1, "pb")
            res.add_explorer(name, ex)
            res.bounds[name] = "preemptions<=%s" % ex.stats.bound_completed


CONFIGS = {
    "quick": [("threaded", False, 7), ("pool", False, 7), ("oneshot", False, 5), ("threaded", True, 5), ("pool", True, 5),
              ("forking", False, 5)],
    "thorough": [("threaded", False, 10), ("pool", False, 10), ("oneshot", False, 8), ("threaded", True, 8), ("pool", True, 8),
                 ("oneshot", True, 7), ("forking", False, 8), ("forking", True, 6)],
}


def replay(rep):
    env.silence_unraisable()
    if rep.get("part", "").startswith("fd-reuse"):
        watch_pool_lines()
        a = reuse_from_part(rep["part"], "C17")(rep["choices"], False, None)[1]["violations"]
        b = reuse_from_part(rep["part"], "C17")(rep["choices"], False, None)[1]["violations"]
    elif rep.get("part", "").startswith("forking-leave"):
        _, n_, mode = rep["part"].split("/")
        a = forking_leave_run(int(n_), mode)(rep["choices"], False, None)[1]["violations"]
        b = forking_leave_run(int(n_), mode)(rep["choices"], False, None)[1]["violations"]
    elif rep.get("part", "").startswith("arrive-leave"):
        watch_close_lines()
        _, kind, mode, fam = rep["part"].split("/")
        a = arrive_leave_run(kind, mode, fam == "unix")(rep["choices"], False, None)[1]["violations"]
        b = arrive_leave_run(kind, mode, fam == "unix")(rep["choices"], False, None)[1]["violations"]
    elif rep.get("part", "").startswith("leave-race"):
        watch_close_lines()
        _, kind, who, mode = rep["part"].split("/")
        a = leave_race_run(kind, int(who), mode)(rep["choices"], False, None)[1]["violations"]
        b = leave_race_run(kind, int(who), mode)(rep["choices"], False, None)[1]["violations"]
    elif rep.get("part", "").startswith("race"):
        kind = rep["part"].split("/")[1]
        a = race_run(kind)(rep["choices"], False, None)[1]["violations"]
        b = race_run(kind)(rep["choices"], False, None)[1]["violations"]
    else:
        h = [tuple(e) for e in rep["history"]]
        a = run_history(rep["kind"], rep["unix"], h)[0]
        b = run_history(rep["kind"], rep["unix"], h)[0]
    if [x[0] for x in a] != [x[0] for x in b]:
        print("REPLAY-DIVERGENCE", a, b)
        return 2
    print("replayed -> %r" % (a[:3],))
    return 1 if a else 0


def main(tier, replay_obj=None):
    if replay_obj is not None:
        return replay(replay_obj)
    env.silence_unraisable()
    res = runner.Result(PID, "model_checking", tier,
                        "explicit-state BFS over connect/call/graceful close/abrupt close/server.close/second close histories of <= 3 "
                        "clients on the real threaded, thread-pool and one-shot servers over simulated TCP and unix sockets, every history "
                        "driven to quiescence, with descriptor/table/hook/thread accounting after every event; plus schedule exploration "
                        "(<= 2 preemptions at system-call granularity) of connect racing server.close(); distinct = canonical states")
    known = runner.load_known()

    def unlisted(sig):
        return (PID, sig) not in known
    for kind, unix, depth in CONFIGS[tier]:
        name = "%s/%s" % (kind, "unix" if unix else "tcp")
        v0, k0, en0 = run_history(kind, unix, [])
        for sig, text in v0:
            res.violation(sig, "empty history: " + text, {"kind": kind, "unix": unix, "history": []})
        r = bfs.bfs(make_expand(kind, unix), en0, depth, init_key=k0, stop=unlisted, chunksize=4,
                    max_seconds=400 if tier == "quick" else 3000)
        res.parts[name] = r.as_dict()
        res.states += r.states
        res.transitions += r.transitions
        res.evaluations += r.transitions
        res.traces += r.transitions
        res.distinct_count_extra += r.states
        res.bounds[name] = "depth %d" % depth
        for c in r.caps:
            if not c.startswith("depth="):
                res.caps.append("%s:%s" % (name, c))
        for s in r.samples[:1]:
            res.add_sample(dict(part=name, **s))
        seen = set()
        for sig, text, hist in r.violations:
            if sig not in seen:
                seen.add(sig)
                res.violation(sig, text, {"kind": kind, "unix": unix, "history": [list(e) for e in hist]})
        if any(unlisted(v[0]) for v in r.violations):
            break
    for kind in ("threaded",):
        ex = explore.ParallelExplorer(race_run(kind), bound=2 if tier == "quick" else 3, max_seconds=240 if tier == "quick" else 2000,
                                      stop_on_violation=unlisted)
        ex.explore()
        res.add_explorer("race/%s" % kind, ex)
        res.bounds["race/%s" % kind] = ex.stats.bound_completed
    explore_reuse(res, tier, "C17", unlisted)
    explore_leave_race(res, tier, unlisted)
    explore_arrive_leave(res, tier, unlisted)
    explore_forking_leave(res, tier, unlisted)
    res.assumptions = ["simulated kernel (conformance-tested against the real one in selftest) - no socket buffer limits, no RST/FIN subtleties",
                       "each event is followed by %.1f virtual seconds of settling" % SETTLE,
                       "forking server: fork() is emulated for the one call shape rpyc uses (see mc/simos.py); signals other than SIGCHLD are not modelled"]
    return res.finish()
