"""C01 -- remote calls compute what a local call would, at any nesting depth.

Family A (control): ALL call-tree programs with <= N nodes: every ordered tree shape x every labelling of
nodes (return / raise ValueError / raise KeyError) and edges (sync call / sync call inside
`except ValueError` / asynchronous call then .value).  A node always executes on the opposite peer of its
parent.  The same program is run through a real Connection pair and inside one process (twin); root outcome
(value or exception class+args) and the ordered invocation log must be identical, every node exactly once.
Family B (data): chains of depth 1..3 whose leaf receives every argument shape positionally, by keyword and
both, and returns every result shape; observation = what the leaf saw (types, values, effect of mutating through
references), what came back, and the caller's objects afterwards, compared with the local twin.
"""
import itertools

from mc import env
rpyc = env.install_sim()
from mc import sched as S, pair, runner, values as V      # noqa: E402
import rpyc as _rpyc                                      # noqa: E402
from rpyc.core import netref                              # noqa: E402

PID = "C01"
LOG = []


def is_proxy(x):
    return isinstance(type(x), netref.NetrefMetaclass)


# ------------------------------------------------------------------ family A
def exec_node(spec, cb, me):
    """spec = (node_id, outcome, ((edge, child_spec), ...)).  cb: how to reach the other side's exec_node;
    me: this side's exec_node (given to the other side for grandchildren)."""
    nid, outcome, children = spec
    LOG.append(nid)
    results = []
    for edge, child in children:
        if edge == "sync":
            results.append(cb(child, me))
        elif edge == "catch":
            try:
                results.append(cb(child, me))
            except ValueError as e:
                results.append(("caught", tuple(e.args)))
        else:   # async
            if is_proxy(cb):
                ar = _rpyc.async_(cb)(child, me)
                results.append(ar.value)
            else:
                results.append(cb(child, me))
    if outcome == "ret":
        return ("ret", nid, tuple(results))
    if outcome == "raiseV":
        raise ValueError(nid, "v")
    if outcome == "raiseG":
        raise GeneratorExit(nid)      # a BaseException that is not an Exception: it, too, reaches whoever called
    # an exception whose data lives outside args and outside the instance dict (C-level attributes), like the ones a remote
    # open() or generator produce: whoever catches it further up reads errno / filename
    raise FileNotFoundError(2, "k%d" % nid, "file%d" % nid)


class PeerA(_rpyc.Service):
    def exposed_exec_node(self, spec, cb):
        return exec_node(spec, cb, self.exposed_exec_node)

    def exposed_chain(self, depth, cb, leaf, args, kwargs):
        return chain(depth, cb, self.exposed_chain, leaf, args, kwargs)


class PeerB(PeerA):
    pass


def trees(n):
    """all ordered trees with n nodes as nested tuples of children"""
    if n == 1:
        return [()]
    out = []
    # first child subtree has k nodes, the rest (a tree with the same root minus first child) has n-k nodes
    for k in range(1, n):
        for first in trees(k):
            for rest in trees(n - k):
                out.append((first,) + rest)
    return out


def programs(maxn):
    outcomes = ("ret", "raiseV", "raiseK", "raiseG")
    edges = ("sync", "catch", "async")
    for n in range(1, maxn + 1):
        for shape in trees(n):
            # label nodes in preorder
            def build(sh, labels_n, labels_e, counter):
                nid = counter[0]
                counter[0] += 1
                kids = []
                for ch in sh:
                    eidx = counter[1]
                    counter[1] += 1
                    kids.append((labels_e[eidx], build(ch, labels_n, labels_e, counter)))
                return (nid, labels_n[nid], tuple(kids))
            for ln in itertools.product(outcomes, repeat=n):
                for le in itertools.product(edges, repeat=n - 1):
                    yield build(shape, ln, le, [0, 0])


def norm_exc(e):
    name = type(e).__name__
    for c in type(e).__mro__:
        if c.__module__ == "builtins":
            name = c.__name__
            break
    return ("E", name, tuple(e.args), getattr(e, "errno", None), getattr(e, "filename", None), getattr(e, "strerror", None))


def run_local(spec):
    del LOG[:]

    def local_exec(sp, cb):
        return exec_node(sp, cb, local_exec)

    # the root runs "on the client": its children run on the "server", both are plain functions here
    try:
        r = ("V", exec_node(spec, local_exec, local_exec))
    except (Exception, GeneratorExit) as e:
        r = norm_exc(e)
    return r, list(LOG)


def run_remote_batch(specs):
    """one connection pair per program (fresh tables), all inside one scheduler run each"""
    out = []
    for spec in specs:
        w = pair.World(PeerA(), PeerB())
        box = {}

        def main():
            w.start_server()
            del LOG[:]
            c = w.cconn
            remote_exec = c.root.exec_node
            me = w.cservice.exposed_exec_node
            try:
                r = ("V", exec_node(spec, remote_exec, me))
            except S.SimAbort:
                raise
            except (Exception, GeneratorExit) as e:
                r = norm_exc(e)
            box["r"] = (r, list(LOG))
            del remote_exec

        sch, _, exc = pair.run(main, horizon=1000, world=w)
        if exc is not None or sch.outcome != "done":
            out.append((("HARNESS", sch.outcome, repr(exc)), []))
        else:
            out.append(box["r"])
    return out


def check_programs(specs):
    env.silence_unraisable()
    viol = []
    outcomes = set()
    rem = run_remote_batch(specs)
    for spec, (rr, rlog) in zip(specs, rem):
        lr, llog = run_local(spec)
        outcomes.add((lr[0], lr[1] if lr[0] == "E" else None, len(llog)))
        if rr[0] == "HARNESS":
            viol.append(("program-did-not-finish:%s" % (rr[1],), "%r: %r" % (spec, rr)))
        elif rr != lr:
            kind = "%s-vs-%s" % (rr[1] if rr[0] == "E" else "value", lr[1] if lr[0] == "E" else "value")
            viol.append(("result-differs-from-local-run:%s" % kind, "%r: remote %r local %r" % (spec, rr, lr)))
        elif rlog != llog:
            c = max((rlog.count(x) for x in set(rlog)), default=0)
            viol.append(("invocations-differ:%s" % ("node-ran-%d-times" % c if c > 1 else "order-or-missing"),
                         "%r: remote %r local %r" % (spec, rlog, llog)))
        if len(viol) >= 5:
            break
    return len(specs), viol, outcomes


# ------------------------------------------------------------------ family B
class Inst(object):
    def __init__(self):
        self.attr = 0

    def bump(self):
        self.attr += 1
        return self.attr


def _fn(x):
    return ("fn", x)


ARG_SHAPES = {
    "int": lambda: 7, "bigint": lambda: 2 ** 70, "float": lambda: -0.5, "text": lambda: "t€", "bytes": lambda: b"\x00b",
    "none": lambda: None, "bool": lambda: True, "empty-tuple": lambda: (), "nested-tuple": lambda: (1, ("a", (b"b", None))),
    "tuple-with-list": lambda: (1, [2, 3]), "list": lambda: [1, 2], "dict": lambda: {"a": 1}, "function": lambda: _fn,
    "instance": lambda: Inst(), "frozenset": lambda: frozenset([1, (2, 3)]), "slice": lambda: slice(1, None, 2),
    # tuple SUBCLASSES are not values: they travel by reference and keep their type, fields and methods
    "namedtuple": lambda: V.Point(1, 2), "tuple-subclass": lambda: V.TupleSub((1, 2)),
    "tuple-with-namedtuple": lambda: (0, V.Point(3, 4)),
    # a class is a callable like any other - also when an instance of it has been seen on the connection before
    "class": lambda: Inst, "instance-then-its-class": lambda: (Inst(), Inst), "class-then-an-instance": lambda: (Inst, Inst()),
}


def describe(x, touch):
    """what a callee can observe of x; touch=True also mutates through references"""
    if V.plain_immutable(x):
        return ("val", V.canon_repr(x))
    if type(x) is tuple:
        return ("tuple",) + tuple(describe(i, touch) for i in x)
    # a reference (local object in the twin, proxy in the remote run)
    cname = x.__class__.__name__
    if cname == "list":
        if touch:
            x.append(99)
        return ("list", tuple(describe(i, False) for i in list(x)))
    if cname == "dict":
        if touch:
            x["z"] = 9
        return ("dict", tuple(sorted((k, describe(x[k], False)) for k in list(x.keys()))))
    if cname == "function":
        return ("function", describe(x(5), False))
    if cname == "Inst":
        if touch:
            x.bump()
        return ("inst", x.attr)
    if cname == "type" and getattr(x, "__name__", None) == "Inst":
        made = x()
        return ("class", describe(made, touch), isinstance(made, x))
    if cname == "Point":
        return ("point", x.x, x.y, len(x), describe(x._replace(x=5)[0], False))
    if cname == "TupleSub":
        return ("tuplesub", len(x), describe(x[0], False))
    return ("other", cname)


def make_result(shape, received):
    mk = ARG_SHAPES[shape]
    return mk()


def leaf(leafspec, args, kwargs):
    rshape = leafspec
    # keyword arguments arrive in the order the caller wrote them (a **kwargs dict is ordered): no sorting here
    seen = (tuple(describe(a, True) for a in args), tuple((k, describe(v, True)) for k, v in kwargs.items()))
    LOG.append(("leaf", seen))
    return ("leafret", make_result(rshape, None))


def chain(depth, cb, me, leafspec, args, kwargs):
    """depth 1: this node is the leaf.  otherwise forward everything to the other side."""
    LOG.append(("node", depth))
    if depth == 1:
        return leaf(leafspec, args, kwargs)
    return cb(depth - 1, me, leafspec, args, kwargs)


def run_chain(remote, depth, ashape, rshape, mode):
    a = ARG_SHAPES[ashape]()
    k = ARG_SHAPES[ashape]()
    if mode == "pos":
        args, kwargs = (a,), {}
    elif mode == "kw":
        args, kwargs = (), {"key": k}
    else:
        args, kwargs = (a,), {"key": k}
    del LOG[:]

    def local_chain(d, cb, leafspec, ar, kw):
        return chain(d, cb, local_chain, leafspec, ar, kw)

    def body(entry, me):
        # the caller invokes the first node on the OTHER side with real positional/keyword arguments
        try:
            r = entry(depth, me, rshape, args, kwargs)
            out = ("V", describe(r[1], True) if isinstance(r, tuple) and len(r) == 2 else ("odd", repr(r)))
        except S.SimAbort:
            raise
        except Exception as e:
            out = norm_exc(e)
        after = (describe(a, False), describe(k, False))
        return out, after, list(LOG)

    if not remote:
        return body(local_chain, local_chain)
    w = pair.World(PeerA(), PeerB())
    box = {}

    def main():
        w.start_server()
        entry = w.cconn.root.chain
        box["r"] = body(entry, w.cservice.exposed_chain)
        del entry
    sch, _, exc = pair.run(main, horizon=1000, world=w)
    if exc is not None or sch.outcome != "done":
        return ("HARNESS", sch.outcome, repr(exc)), None, None
    return box["r"]


# chain() above passes args/kwargs as two explicit parameters so that intermediate nodes forward them untouched;
# the *call itself* with real *args/**kwargs is exercised by the entry wrappers below.
class PeerK(_rpyc.Service):
    def exposed_call(self, depth, cb, rshape, *args, **kwargs):
        LOG.append(("node", depth))
        if depth == 1:
            return leaf(rshape, args, kwargs)
        return cb(depth - 1, self.exposed_call, rshape, *args, **kwargs)


def run_kwcall(remote, depth, ashape, rshape, mode):
    a = ARG_SHAPES[ashape]()
    k = ARG_SHAPES[ashape]()
    args, kwargs = {"pos": ((a,), {}), "kw": ((), {"key": k}), "both": ((a,), {"zulu": k, "other": 1, "alpha": 2})}[mode]
    del LOG[:]

    def local_call(d, cb, rs, *ar, **kw):
        LOG.append(("node", d))
        if d == 1:
            return leaf(rs, ar, kw)
        return cb(d - 1, local_call, rs, *ar, **kw)

    def body(entry, me):
        try:
            r = entry(depth, me, rshape, *args, **kwargs)
            out = ("V", describe(r[1], True))
        except S.SimAbort:
            raise
        except Exception as e:
            out = norm_exc(e)
        return out, (describe(a, False), describe(k, False)), list(LOG)

    if not remote:
        return body(local_call, local_call)
    # the callee mutates through the references it receives: that needs attribute access, which is C06's subject
    cfg = {"allow_all_attrs": True, "allow_setattr": True, "allow_public_attrs": True}
    w = pair.World(PeerK(), PeerK(), cfg, cfg)
    box = {}

    def main():
        w.start_server()
        entry = w.cconn.root.call
        box["r"] = body(entry, w.cservice.exposed_call)
        del entry
    sch, _, exc = pair.run(main, horizon=1000, world=w)
    if exc is not None or sch.outcome != "done":
        return ("HARNESS", sch.outcome, repr(exc)), None, None
    return box["r"]


def check_chains(cases):
    env.silence_unraisable()
    viol = []
    for (depth, ashape, rshape, mode) in cases:
        rr = run_kwcall(True, depth, ashape, rshape, mode)
        lr = run_kwcall(False, depth, ashape, rshape, mode)
        if rr[0] and rr[0][0] == "HARNESS":
            viol.append(("chain-did-not-finish:%s" % (rr[0][1],), "%r: %r" % ((depth, ashape, rshape, mode), rr[0]), (depth, ashape, rshape, mode)))
        elif rr != lr:
            what = "result" if rr[0] != lr[0] else ("caller-object-after-call" if rr[1] != lr[1] else "callee-view")
            viol.append(("chain-differs-from-local-run:%s:arg=%s:ret=%s:%s" % (what, ashape, rshape, mode),
                         "depth %d: remote %r local %r" % (depth, rr, lr), (depth, ashape, rshape, mode)))
        if len(viol) >= 5:
            break
    return len(cases), viol


def chain_cases():
    out = []
    shapes = sorted(ARG_SHAPES)
    for depth in (1, 2, 3):
        for a in shapes:
            for r in shapes:
                for mode in ("pos", "kw", "both"):
                    out.append((depth, a, r, mode))
    return out


def chunks(xs, n):
    return [xs[i:i + n] for i in range(0, len(xs), n)]


def replay(rep):
    env.silence_unraisable()
    if rep["part"] == "programs":
        spec = eval(rep["spec"])
        a = check_programs([spec])
        b = check_programs([spec])
    else:
        case = tuple(rep["case"])
        a = check_chains([case])
        b = check_chains([case])
    if [v[0] for v in a[1]] != [v[0] for v in b[1]]:
        print("REPLAY-DIVERGENCE", a[1], b[1])
        return 2
    print("replayed -> %r" % (a[1],))
    return 1 if a[1] else 0


def main(tier, replay_obj=None):
    if replay_obj is not None:
        return replay(replay_obj)
    env.silence_unraisable()
    N = 4 if tier == "quick" else 5
    res = runner.Result(PID, "exploration", tier,
                        "Family A: every call-tree program with <= %d nodes (all ordered tree shapes x node outcome in {return, raise "
                        "ValueError, raise KeyError} x edge in {sync, sync-in-except-ValueError, async+value}); Family B: chains of depth "
                        "1..3 x 16 argument shapes x 16 result shapes x {positional, keyword, both}; each run on a real Connection pair "
                        "and on a single-process twin; distinct = distinct (outcome class, invocation count) of programs + chain cases" % N)
    specs = list(programs(N))
    outs = runner.pmap(check_programs, [(c,) for c in chunks(specs, 200)])
    n = 0
    oc = set()
    for (nn, viol, outcomes), c in zip(outs, chunks(specs, 200)):
        n += nn
        oc |= outcomes
        for sig, text in viol:
            res.violation(sig, text, {"part": "programs", "spec": text.split(": remote")[0]})
    res.evaluations += n
    res.parts["programs"] = {"programs": n, "max_nodes": N, "distinct_outcomes": len(oc)}
    for o in oc:
        res.nontrivial(("prog", o))
    res.add_sample({"program": repr(specs[len(specs) // 2])})
    cases = chain_cases()
    outs = runner.pmap(check_chains, [(c,) for c in chunks(cases, 64)])
    m = 0
    for nn, viol in outs:
        m += nn
        for sig, text, case in viol:
            res.violation(sig, text, {"part": "chains", "case": list(case)})
    res.evaluations += m
    res.distinct_count_extra += m
    res.parts["chains"] = {"cases": m}
    res.add_sample({"chain": [3, "tuple-with-list", "dict", "both"]})
    res.assumptions = ["deterministic default schedule: the peer serves whenever the requester waits",
                       "families A and B are each exhaustive within their bound; their product is not enumerated"]
    return res.finish()
