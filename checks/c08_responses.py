"""C08 -- every request gets exactly one response, delivered to its own requester.

Part A (real client + real server, frame ledger at the in-memory transport): every stream of <= N requests
over kinds {value, reference, handler raises, text with a lone surrogate, integer too long to render,
exception whose arguments cannot be encoded, nested callback} x {sync, async}, with the asynchronous results
collected at every possible later position.  Oracle: for every request frame (either direction) exactly one
response frame with the same sequence number; each handler ran exactly once; every result reaches the request
that carries its token; unencodable results/exceptions surface as an exception (not a lost connection); the
connection answers a ping afterwards.
Part B (reference-codec raw peer): every malformed / undecodable request from a menu, in sequences of <= 2,
each followed by a well-formed ping: exactly one exception response bearing the request's own sequence
number (whatever value that is), and the connection stays usable.
"""
import gc
import itertools

from mc import env
rpyc = env.install_sim()
from mc import sched as S, pair, runner, refcodec as R, simnet     # noqa: E402
import rpyc as _rpyc                                                # noqa: E402
from rpyc.core.channel import Channel                               # noqa: E402
from rpyc.core.async_ import AsyncResultTimeout                     # noqa: E402

PID = "C08"
KINDS = ("val", "ref", "raise", "surr", "bigint", "badexc", "nested", "genexit", "baseexc", "nested-raise", "nested-bigint")


class Weird(BaseException):
    """a handler failure that is not an Exception (like GeneratorExit, asyncio.CancelledError)"""

BIG = 10 ** 5000


class ServerSvc(_rpyc.Service):
    def __init__(self):
        self.count = {}

    def exposed_do(self, kind, tok, cb=None):
        self.count[tok] = self.count.get(tok, 0) + 1
        if kind == "val":
            return ("ok", tok)
        if kind == "ref":
            return ["ref", tok]
        if kind == "raise":
            raise ValueError(tok)
        if kind == "surr":
            return ("\ud800x", tok)
        if kind == "bigint":
            return (BIG, tok)
        if kind == "badexc":
            raise ValueError(BIG, tok)
        if kind == "nested":
            return ("nested", cb(tok))
        if kind == "nested-raise":
            # another request is dispatched on this side while this one is in progress (the callback's reply path may
            # call in again), and THEN this one fails: the failure must still be answered under its own number
            cb(tok)
            raise ValueError(tok)
        if kind == "nested-bigint":
            cb(tok)
            return (BIG, tok)
        if kind == "genexit":
            raise GeneratorExit(tok)
        if kind == "baseexc":
            raise Weird(tok)
        raise AssertionError(kind)


class ClientSvc(_rpyc.Service):
    def __init__(self):
        self.cb_count = {}

    def exposed_cb(self, tok):
        self.cb_count[tok] = self.cb_count.get(tok, 0) + 1
        return ("cb", tok)


def ledger(stream_log):
    """[(kind, seq)] of every frame written to a stream"""
    out = []
    buf = b"".join(stream_log)
    while buf:
        r = R.unframe(buf)
        if r is None:
            out.append(("partial", len(buf)))
            break
        payload, buf = r
        kind, seq, args = R.decode(payload, "surrogatepass")
        out.append((kind, seq))
    return out


def classify(exc):
    if isinstance(exc, EOFError):
        return "eof"
    if isinstance(exc, AsyncResultTimeout):
        return "timeout"
    return "exc:" + type(exc).__name__.split(".")[-1]


def run_history(hist):
    """hist: list of ('sync'|'async', kind) | ('collect', i).  returns list of violations"""
    csvc, ssvc = ClientSvc(), ServerSvc()
    w = pair.World(csvc, ssvc)
    box = {"results": {}, "pending": {}, "ping": None}

    def outcome_of(fn):
        try:
            v = fn()
        except S.SimAbort:
            raise
        except BaseException as ex:   # noqa
            return ("E", classify(ex), getattr(ex, "args", None))
        return ("V", v)

    def main():
        w.start_server()
        c = w.cconn
        root = c.root
        do = root.do
        ado = _rpyc.async_(do)
        cb = csvc.exposed_cb
        tok = 0
        asyncs = []
        for ev in hist:
            if ev[0] == "sync":
                tok += 1
                t = tok
                box["results"][t] = (ev[1], outcome_of(lambda: normalise(do(ev[1], t, cb))))
            elif ev[0] == "async":
                tok += 1
                t = tok
                r = outcome_of(lambda: ado(ev[1], t, cb))
                if r[0] == "E":
                    box["results"][t] = (ev[1], r)
                    asyncs.append(None)
                else:
                    asyncs.append((t, ev[1], r[1]))
            elif ev[0] == "collect":
                a = asyncs[ev[1]]
                if a is not None and a[0] not in box["results"]:
                    box["results"][a[0]] = (a[1], outcome_of(lambda: normalise(a[2].value)))
        for a in asyncs:
            if a is not None and a[0] not in box["results"]:
                box["results"][a[0]] = (a[1], outcome_of(lambda: normalise(a[2].value)))
        box["ping"] = outcome_of(lambda: c.ping("p", timeout=5))
        # drop proxies, let release notices and their replies flow
        del do, ado, root
        a = r = ev = None     # loop variables would keep the last AsyncResult (and its proxy) alive until main returns
        asyncs[:] = []
        for _ in range(20):
            if not c.closed and (w.a.inbox or w.b.inbox):
                try:
                    c.serve(0.1)
                except EOFError:
                    break
            else:
                break
        box["left"] = len(c._request_callbacks) if not c.closed else -1

    def normalise(v):
        # a reference result: look inside through the proxy (extra requests, also in the ledger)
        if isinstance(v, tuple):
            return v
        return ("ref", v[0], v[1])

    sch, _, exc = pair.run(main, horizon=500)
    viol = []
    if exc is not None:
        viol.append(("harness-raised:%s" % type(exc).__name__, repr(exc)))
    if sch.outcome != "done":
        viol.append(("scheduler:%s" % sch.outcome, repr(sch.deadlock_info)))
        w.shutdown()
        return viol
    # --- per-request outcome
    for t, (kind, out) in sorted(box["results"].items()):
        want = {"val": ("V", ("ok", t)), "ref": ("V", ("ref", "ref", t)), "nested": ("V", ("nested", ("cb", t)))}.get(kind)
        if want is not None:
            if out != want:
                viol.append(("wrong-result:%s:%s" % (kind, out[1] if out[0] == "E" else "value"), "request %d (%s): %r" % (t, kind, out)))
        elif kind in ("raise", "nested-raise"):
            if not (out[0] == "E" and out[1] == "exc:ValueError" and out[2] == (t,)):
                viol.append(("wrong-result:raise:%s" % (out[1] if out[0] == "E" else "value"), "request %d: %r" % (t, out)))
        elif kind == "surr":
            ok = out == ("V", ("\ud800x", t)) or (out[0] == "E" and out[1].startswith("exc:"))
            if not ok:
                viol.append(("unencodable-result:%s:%s" % (kind, out[1] if out[0] == "E" else "wrong-value"), "request %d: %r" % (t, out)))
        elif kind in ("genexit", "baseexc"):
            # any failure of the handler, whatever its class, is answered with an exception response
            if not (out[0] == "E" and out[1].startswith("exc:")):
                viol.append(("handler-failure-not-answered:%s:%s" % (kind, out[1] if out[0] == "E" else "value"),
                             "request %d (%s): requester observed %r" % (t, kind, str(out)[:200])))
        else:       # bigint, badexc: must surface as an exception, not as a lost connection or a hang
            if not (out[0] == "E" and out[1].startswith("exc:")):
                viol.append(("unencodable-result:%s:%s" % (kind, out[1] if out[0] == "E" else "value"),
                             "request %d (%s): requester observed %r" % (t, kind, str(out)[:200])))
    # --- handlers at most once (exactly once here: nothing was cancelled)
    for t, n in ssvc.count.items():
        if n != 1:
            viol.append(("handler-ran-%d-times" % n, "token %d" % t))
    for t, n in csvc.cb_count.items():
        if n != 1:
            viol.append(("callback-ran-%d-times" % n, "token %d" % t))
    # --- frame ledger, both directions
    for name, req_log, resp_log in (("c->s", w.a.log, w.b.log), ("s->c", w.b.log, w.a.log)):
        reqs = [s for k, s in ledger(req_log) if k == R.REQUEST]
        resps = {}
        for k, s in ledger(resp_log):
            if k in (R.REPLY, R.EXCEPTION):
                resps[s] = resps.get(s, 0) + 1
        for s in reqs:
            n = resps.pop(s, 0)
            if n != 1:
                viol.append(("ledger:%s:request-got-%d-responses" % (name, n), "seq %r in history %r" % (s, hist)))
        if resps:
            viol.append(("ledger:%s:response-without-request" % name, repr(resps)))
        if len(set(reqs)) != len(reqs):
            viol.append(("ledger:%s:sequence-number-reused" % name, repr(reqs)))
    if box["ping"] != ("V", None):
        viol.append(("connection-unusable-afterwards:%s" % (box["ping"][1] if box["ping"][0] == "E" else "value"), repr(box["ping"])[:200]))
    if box.get("left", 0) > 0:
        viol.append(("stale-pending-callbacks", "%d left" % box["left"]))
    w.shutdown()
    return viol


def histories(nreq, kinds=KINDS):
    """all streams of <= nreq requests (kind x mode) with collects of outstanding async results at every position"""
    evs = [(m, k) for k in kinds for m in ("sync", "async")]
    out = []

    def rec(hist, nasync, collected, n):
        out.append(tuple(hist))
        for i in range(nasync):
            if i not in collected:
                rec(hist + [("collect", i)], nasync, collected | {i}, n)
        if n < nreq:
            for e in evs:
                rec(hist + [e], nasync + (1 if e[0] == "async" else 0), collected, n + 1)
    rec([], 0, frozenset(), 0)
    # a history and its extension by trailing collects behave the same as the final collect-all: drop duplicates
    seen = set()
    res = []
    for h in out:
        while h and h[-1][0] == "collect" and False:
            h = h[:-1]
        if h not in seen:
            seen.add(h)
            res.append(h)
    return res


def run_chunk(hists):
    env.silence_unraisable()
    out = []
    for h in hists:
        v = run_history(list(h))
        if v:
            out.append((h, v))
    return len(hists), out


# ------------------------------------------------------------------ part B: malformed requests from a raw peer
class Raw(object):
    def __init__(self):
        self.a, self.b = simnet.SimStream.pair("real", "raw")
        self.svc = ServerSvc()
        self.conn = self.svc._connect(Channel(self.a), {})
        self.buf = bytearray()

    def send(self, payload_value):
        self.b.write(R.frame(R.encode(payload_value)))

    def pump(self):
        try:
            while self.a.inbox:
                self.conn.serve(0)
        except EOFError:
            return "eof"
        except Exception as ex:
            return "raised:" + type(ex).__name__
        return "ok"

    def take_all(self):
        self.buf += self.b.inbox
        del self.b.inbox[:]
        out = []
        while True:
            r = R.unframe(self.buf)
            if r is None:
                return out
            payload, rest = r
            self.buf = bytearray(rest)
            out.append(R.decode(payload))


def malformed_menu():
    V = R.L_VALUE
    good_args = (V, ("x",))
    menu = [
        ("unknown-handler-0", (0, good_args)), ("unknown-handler-21", (21, good_args)), ("unknown-handler-huge", (2 ** 40, good_args)),
        ("handler-text", ("ping", good_args)), ("handler-none", (None, good_args)), ("handler-tuple", ((1,), good_args)),
        ("args-not-a-pair", (1,)), ("args-triple", (1, good_args, 0)), ("args-int", 7), ("args-none", None), ("args-text", "abc"),
        ("boxed-unknown-label", (1, (9, "x"))), ("boxed-label-0", (1, (0, "x"))), ("boxed-not-pair", (1, (1,))),
        ("boxed-int", (1, 5)), ("boxed-tuple-of-ints", (1, (2, (1, 2)))), ("boxed-nested-bad", (1, (2, ((1, "a"), (7, "b"))))),
        ("local-ref-unknown", (4, (2, ((3, ("builtins.list", 1, 2)), (1, "x"))))), ("local-ref-not-a-triple", (4, (2, ((3, "zz"), (1, "x"))))),
        ("remote-ref-not-a-triple", (1, (2, ((4, 5),)))), ("too-many-args", (1, (1, ("a", "b", "c")))), ("too-few-args", (4, (1, ()))),
        ("args-value-not-tuple", (1, (1, 5))), ("getattr-on-value", (4, (1, (5, "real")))), ("call-a-value", (7, (1, (5, (), ())))),
        ("del-unknown", (15, (2, ((3, ("a.b", 9, 9)), (1, 1))))), ("inspect-unknown", (16, (1, (("a.b", 9, 9),)))),
        ("inspect-not-a-triple", (16, (1, (5,)))), ("buffiter-on-int", (17, (1, (5, 2)))), ("pickle-disabled", (14, (1, (5, 2)))),
        ("ctxexit-value", (19, (1, (5, None)))), ("instancecheck-bad", (20, (1, (5, ("x", 1))))), ("cmp-bad-op", (11, (1, (5, 6, "__nope__")))),
        ("oldslicing-bad", (18, (1, (5, "a", "b", 0, 1, ())))), ("hash-unhashable-args", (12, (1, ()))), ("callattr-missing", (8, (1, (5, "nope", (), ())))),
    ]
    return menu


SEQS = (5, 0, -1, 2 ** 70, "seq-text", None, (1, 2), 3.5)


def run_malformed(seq_of_cases):
    """each case: (name, request args, seq).  returns violations"""
    raw = Raw()
    viol = []
    for name, rargs, seq in seq_of_cases:
        raw.send((R.REQUEST, seq, rargs))
        st = raw.pump()
        msgs = raw.take_all()
        resp = [m for m in msgs if m[0] in (R.REPLY, R.EXCEPTION)]
        if st != "ok":
            viol.append(("malformed-request-ends-serving:%s:%s" % (name, st), "seq=%r" % (seq,)))
            break
        if len(resp) != 1:
            viol.append(("malformed-request-got-%d-responses:%s" % (len(resp), name), "seq=%r -> %r" % (seq, msgs)))
        elif resp[0][0] != R.EXCEPTION and name not in OK_REPLY:
            viol.append(("malformed-request-answered-with-result:%s" % name, repr(resp[0])[:200]))
        elif not (resp[0][1] == seq and type(resp[0][1]) is type(seq)):
            viol.append(("response-bears-other-sequence-number:%s" % name, "sent %r got %r" % (seq, resp[0][1])))
        # still usable
        raw.send((R.REQUEST, 424242, (1, (R.L_VALUE, ("still-here",)))))
        st = raw.pump()
        msgs = raw.take_all()
        if st != "ok" or msgs != [(R.REPLY, 424242, (R.L_VALUE, "still-here"))]:
            viol.append(("connection-unusable-after-malformed-request:%s" % name, "%s %r" % (st, msgs)))
            break
    raw.conn._closed = True
    return viol


# requests in the menu that are well-formed enough to deserve a normal reply
OK_REPLY = {"hash-unhashable-args", "instancecheck-bad"}


def malformed_cases(depth):
    menu = malformed_menu()
    singles = [[(n, a, s)] for (n, a) in menu for s in SEQS]
    out = list(singles)
    if depth >= 2:
        for (n1, a1), (n2, a2) in itertools.product(menu, repeat=2):
            out.append([(n1, a1, 11), (n2, a2, 11)])       # the same sequence number twice in a row
    return out


def run_malformed_chunk(cases):
    env.silence_unraisable()
    out = []
    for c in cases:
        v = run_malformed(c)
        if v:
            out.append(([x[0] for x in c], [x[2] for x in c], v))
    return len(cases), out


def chunks(xs, n):
    return [xs[i:i + n] for i in range(0, len(xs), n)]


def replay(rep):
    env.silence_unraisable()
    if rep.get("part") == "malformed":
        menu = dict(malformed_menu())
        case = [(n, menu[n], s if not isinstance(s, list) else tuple(s)) for n, s in zip(rep["names"], rep["seqs"])]
        a, b = run_malformed(case), run_malformed(case)
    else:
        h = [tuple(e) for e in rep["history"]]
        a, b = run_history(h), run_history(h)
    if [x[0] for x in a] != [x[0] for x in b]:
        print("REPLAY-DIVERGENCE", a, b)
        return 2
    print("replayed -> %r" % (a,))
    return 1 if a else 0


def main(tier, replay_obj=None):
    if replay_obj is not None:
        return replay(replay_obj)
    env.silence_unraisable()
    nreq = 3 if tier == "quick" else 4
    kinds = KINDS
    res = runner.Result(PID, "model_checking", tier,
                        "A: all request streams of <= %d requests over 11 handler outcomes x {sync, async} with every placement of "
                        "'collect result i', run on a real client/server Connection pair with a frame ledger at the transport; "
                        "B: every malformed request of a %d-entry menu x 8 sequence-number shapes, and all ordered pairs of menu "
                        "entries, each followed by a ping; states = distinct histories, transitions = events executed" % (nreq, len(malformed_menu())))
    hs = histories(nreq, kinds if tier == "quick" else kinds)
    if tier == "thorough":
        # depth 4 over all 7 kinds is ~10^6 histories: restrict the 4th request to the kinds that matter most
        hs = [h for h in hs if sum(1 for e in h if e[0] != "collect") < 4 or
              all(e[1] in ("val", "bigint", "nested", "raise") for e in h if e[0] != "collect")]
    outs = runner.pmap(run_chunk, [(c,) for c in chunks(hs, 64)])
    n = sum(o[0] for o in outs)
    res.states += n
    res.transitions += sum(len(h) for h in hs)
    res.evaluations += n
    res.traces += n
    res.distinct_count_extra += n
    res.parts["streams"] = {"histories": n, "max_requests": nreq}
    for _, bad in outs:
        for h, v in bad:
            for sig, text in v:
                res.violation(sig, "history %r: %s" % (list(h), text), {"part": "streams", "history": [list(e) for e in h]})
    res.add_sample({"history": [list(e) for e in hs[len(hs) // 2]]})
    cases = malformed_cases(2)
    outs = runner.pmap(run_malformed_chunk, [(c,) for c in chunks(cases, 64)])
    n2 = sum(o[0] for o in outs)
    res.states += n2
    res.transitions += sum(len(c) * 2 for c in cases)
    res.evaluations += n2
    res.traces += n2
    res.distinct_count_extra += n2
    res.parts["malformed"] = {"cases": n2, "menu": len(malformed_menu()), "seq_shapes": len(SEQS)}
    for _, bad in outs:
        for names, seqs, v in bad:
            for sig, text in v:
                res.violation(sig, "%r seq=%r: %s" % (names, seqs, text), {"part": "malformed", "names": names, "seqs": list(seqs)})
    res.add_sample({"malformed": ["boxed-unknown-label", "seq=2**70"]})
    res.assumptions = ["deterministic default schedule (the peer serves whenever the requester waits); thread interleavings of requesters "
                       "are C13's subject", "a result that cannot be encoded must surface as an exception at the requester (any class "
                       "other than EOFError / time-out) and the connection must answer a ping afterwards"]
    return res.finish()
