"""C15 -- asynchronous results: one final outcome, callbacks once, timeouts exact.

Explicit-state BFS over event histories in *virtual time* on a real Connection whose peer is a scripted
reference-codec endpoint.  One AsyncResult is created (async_request / sync_request / timed()) with
timeout T in {None, -1, 0, 1, 2}; events then interleave: scheduling the reply (value or exception) to
arrive after d in {0, 0.5, 1, 1.5, 2.5}; clock ticks of 0.5; add_callback; ready / error / expired queries;
wait() / value; set_expiry; an unrelated request whose handler takes 0 or 0.75 virtual seconds; an unrelated
(unknown-seq) reply.  Oracle: a reference three-state machine over (arrival time, expiry, processed?)
that yields the *set* of acceptable results for every operation (both readings accepted where the
statement is silent: a reply that arrived before the expiry but is first looked at after it), plus the
virtual clock at every return/raise and the callback log.
"""
import gc

from mc import env
rpyc = env.install_sim()
from mc import sched as S, simnet, bfs, runner, refcodec as R          # noqa: E402
import rpyc as _rpyc                                                    # noqa: E402
from rpyc.core import consts                                            # noqa: E402
from rpyc.core.protocol import Connection                               # noqa: E402
from rpyc.core.channel import Channel                                   # noqa: E402
from rpyc.core.async_ import AsyncResultTimeout                         # noqa: E402
from rpyc.utils.helpers import timed                                    # noqa: E402
from rpyc.core import netref                                            # noqa: E402

PID = "C15"
EPS = 1e-9


class Svc(_rpyc.Service):
    def __init__(self):
        self.busy = []      # (start, end) of every slow handler

    def exposed_slow(self, d):
        t0 = S.sim_time.time()
        S.sim_time.sleep(d)
        self.busy.append((t0, S.sim_time.time()))
        return d


class Sys(object):
    def __init__(self, mode, T):
        self.mode, self.T = mode, T
        self.a, self.b = simnet.SimStream.pair("c", "s")
        self.svc = Svc()
        cfg = {"sync_request_timeout": T} if mode == "sync" else {}
        self.conn = self.svc._connect(Channel(self.a, False), cfg)
        self.buf = bytearray()
        self.cblog = []
        self.obs = []           # (event, result, clock)
        self.res = None
        self.req_seq = None
        self.root_idp = None
        self.t0 = None
        self.sync_out = None
        self.peer_seq = 1000
        self.viol = []
        self.n_sched = 0
        s = S.current_sched()
        # the peer learns the id of the root (to send unrelated requests later)
        self.b.write(R.message(R.REQUEST, 1, (R.H["getroot"], (R.L_VALUE, ()))))
        self.conn.serve(0)
        kind, seq, args = self.peer_take()
        assert kind == R.REPLY and args[0] == R.L_REMOTE_REF, (kind, args)
        self.root_idp = args[1]

    # ---- peer side
    def peer_take(self):
        self.buf += self.b.inbox
        del self.b.inbox[:]
        r = R.unframe(self.buf)
        if r is None:
            return None
        payload, rest = r
        self.buf = bytearray(rest)
        return R.decode(payload)

    def peer_drain(self):
        out = []
        while True:
            m = self.peer_take()
            if m is None:
                return out
            out.append(m)

    def later(self, d, fn, name):
        s = S.current_sched()

        def body():
            if d > 0:
                S.sim_time.sleep(d)
            fn()
        s.spawn(body, name)

    # ---- creating the result
    def start(self):
        c = self.conn
        self.t0 = S.sim_time.time()
        if self.mode == "async":
            self.res = c.async_request(consts.HANDLE_PING, "tok", timeout=self.T) if self.T != "unset" else \
                c.async_request(consts.HANDLE_PING, "tok")
        elif self.mode == "timed":
            cls = netref.builtin_classes_cache["builtins.function"]
            self.fn_proxy = cls(c, ("builtins.function", 11, 12))
            self.res = timed(self.fn_proxy, self.T)("tok")
        msgs = self.peer_drain()
        assert len(msgs) == 1 and msgs[0][0] == R.REQUEST, msgs
        self.req_seq = msgs[0][1]

    def cb(self, i):
        def f(r):
            self.cblog.append((i, S.sim_time.time(), r is self.res))
        return f

    def reply_bytes(self, kind):
        if kind == "val":
            return R.message(R.REPLY, self.req_seq, (R.L_VALUE, "tok"))
        return R.message(R.EXCEPTION, self.req_seq, (("builtins", "ValueError"), ("boom",), (), "tb"))

    # ---- events
    def reply_position(self):
        """index of the real reply among the unprocessed frames of the connection's inbox (None if absent)"""
        buf = bytes(self.a.inbox)
        i = 0
        while buf:
            r = R.unframe(buf)
            if r is None:
                break
            payload, buf = r
            kind, seq, args = R.decode(payload)
            if kind in (R.REPLY, R.EXCEPTION) and seq == self.req_seq:
                return i
            i += 1
        return None

    def apply(self, ev):
        op = ev[0]
        now = S.sim_time.time
        r = None
        ahead = self.reply_position() if self.req_seq is not None else None
        if op == "sched_reply":
            _, d, kind = ev
            data = self.reply_bytes(kind)
            self.n_sched += 1
            self.later(d, lambda: self.b.write(data), "reply")
            if d == 0:
                S.current_sched().block(lambda: bool(self.a.inbox), None, "harness.arrive")
        elif op == "unrel_req":
            _, d, dur = ev
            self.peer_seq += 1
            data = R.message(R.REQUEST, self.peer_seq, (R.H["callattr"], (R.L_TUPLE, (
                (R.L_LOCAL_REF, self.root_idp), (R.L_VALUE, "slow"), (R.L_VALUE, (dur,)), (R.L_VALUE, ())))))
            self.later(d, lambda: self.b.write(data), "unrel")
            if d == 0:
                S.current_sched().block(lambda: bool(self.a.inbox), None, "harness.arrive")
        elif op == "unrel_reply":
            self.b.write(R.message(R.REPLY, 77777, (R.L_VALUE, "stray")))
        elif op == "tick":
            S.sim_time.sleep(ev[1])
        elif op == "add_cb":
            self.res.add_callback(self.cb(ev[1]))
        elif op == "add_cb_nested":
            # a callback that, when it runs, registers one more callback on the same result (re-entrant registration)
            inner = self.cb(ev[1] + 10)
            outer = self.cb(ev[1])

            def nesting(r, outer=outer, inner=inner):
                outer(r)
                self.res.add_callback(inner)
            self.res.add_callback(nesting)
        elif op == "ready":
            r = self.res.ready
        elif op == "error":
            r = bool(self.res.error) if self.res.error is not None else None
        elif op == "expired":
            r = self.res.expired
        elif op in ("wait", "value"):
            try:
                if op == "wait":
                    self.res.wait()
                    r = ("ok", None)
                else:
                    r = ("ok", self.res.value)
            except AsyncResultTimeout:
                r = ("timeout", None)
            except ValueError as ex:
                r = ("exc", ex.args)
        elif op == "set_expiry":
            self.res.set_expiry(ev[1])
        elif op == "serve":
            r = self.conn.serve(0)
        else:
            raise ValueError(ev)
        st = None
        if self.res is not None:
            st = "ready" if self.res._is_ready else ("expired" if self.res._ttl.expired() else "pending")
        self.obs.append((ev, r, now(), st, ahead))
        return r


def run_sync(T, d, kind, age=0):
    """sync_request with configured timeout T issued on a connection that is `age` seconds old, reply arriving after d:
    returns (outcome, clock).  The expiry counts from the moment the request is ISSUED."""
    box = {}

    def main():
        sy = Sys("sync", T)
        c = sy.conn
        if age:
            S.sim_time.sleep(age)
        t0 = S.sim_time.time()

        def peer():
            s = S.current_sched()
            s.block(lambda: bool(sy.b.inbox), None, "peer.wait")
            msgs = sy.peer_drain()
            sy.req_seq = msgs[0][1]
            if d is not None:
                if d > 0:
                    S.sim_time.sleep(d)
                sy.b.write(sy.reply_bytes(kind))
        S.current_sched().spawn(peer, "peer")
        try:
            v = c.sync_request(consts.HANDLE_PING, "tok")
            out = ("ok", v)
        except AsyncResultTimeout:
            out = ("timeout", None)
        except ValueError as ex:
            out = ("exc", ex.args)
        box["out"] = (out, S.sim_time.time() - t0, len(c._request_callbacks))
    gc.disable()
    sch = S.Scheduler((), sync_points=False, io_points=False, horizon=1000)
    sch.run(main)
    return sch.outcome, box.get("out")


# ------------------------------------------------------------------ reference model
class Model(object):
    """acceptable-outcome oracle.  Times are absolute virtual seconds."""

    def __init__(self, T, t0):
        self.finite = T is not None and T != "unset" and T >= 0
        self.negative = T is not None and T != "unset" and T < 0
        self.E = t0 + T if self.finite else None
        self.arrivals = []        # (time, kind) scheduled/arrived replies, in order
        self.status = "pending"   # pending | ready | expired
        self.kind = None
        self.nested = {}          # callback id -> id of the callback it registers when it runs
        self.cbs = []             # registered callback ids in order
        self.ran = []             # callbacks that must have run, in order

    def expired_at(self, t):
        return self.E is not None and t >= self.E - EPS

    def first_arrival(self):
        return self.arrivals[0] if self.arrivals else None


def check_history(mode, T, hist):
    """replays hist on the real code and compares every observation with the model.
    returns (key, enabled, violations, info)"""
    box = {}

    def main():
        sy = Sys(mode, T)
        sy.start()
        box["sy"] = sy
        for ev in hist:
            sy.apply(ev)
        box["done"] = True

    gc.disable()
    sch = S.Scheduler((), sync_points=False, io_points=False, horizon=500, max_steps=20000)
    sch.run(main)
    sy = box.get("sy")
    viol = []
    if sch.outcome != "done" or not box.get("done"):
        t0exc = sch.threads[0].exc if sch.threads else None
        sig = ("operation-raised:%s" % type(t0exc).__name__) if (sch.outcome == "done" and t0exc is not None) else "harness-outcome:%s" % sch.outcome
        return (("abnormal", sch.outcome), [], [(sig, "history %r: %r %r" % (hist, sch.deadlock_info, t0exc))], None)
    for t in sch.threads:
        if t.exc is not None:
            viol.append(("thread-raised:%s" % type(t.exc).__name__, "history %r: %s raised %r" % (hist, t.name, t.exc)))
    # ---- oracle
    m = Model(T, sy.t0)
    busy = sy.svc.busy
    res = sy.res
    clock_prev = sy.t0
    arrivals = []     # absolute arrival times of the real reply
    for ev, r, t, st_after, ahead in sy.obs:
        op = ev[0]
        tb = clock_prev            # time before the operation
        clock_prev = t
        if op == "sched_reply":
            arrivals.append((tb + ev[1], ev[2]))
            continue
        if op == "set_expiry":
            T2 = ev[1]
            if m.status == "pending":
                m.finite = T2 is not None and T2 >= 0
                m.E = tb + T2 if m.finite else None
            continue
        if op in ("tick", "unrel_req", "unrel_reply"):
            continue
        A = arrivals[0][0] if arrivals else None
        Akind = arrivals[0][1] if arrivals else None

        def arrived_by(x):
            return A is not None and A <= x + EPS

        def busy_cover(x):
            """end of the contiguous busy period covering instant x (or x itself)"""
            y = x
            changed = True
            while changed:
                changed = False
                for (b0, b1) in busy:
                    if b0 - EPS <= y < b1 - EPS:
                        y = b1
                        changed = True
            return y

        if op == "add_cb":
            m.cbs.append(ev[1])
            continue
        if op == "add_cb_nested":
            m.cbs.append(ev[1])
            m.nested[ev[1]] = ev[1] + 10
            continue
        # --- what may the status be after this operation?
        if m.status == "pending":
            allowed = set()
            blocking = op in ("wait", "value")
            nb_serving = op in ("ready", "error", "serve")
            exp_b = m.expired_at(tb)
            before_E = A is not None and (m.E is None or A < m.E - EPS)
            tie = A is not None and m.E is not None and abs(A - m.E) <= EPS
            if m.negative:
                allowed = {"pending", "ready", "expired"}       # the statement is silent on the instant
            elif blocking:
                # waits until the reply is processed or the expiry passes
                if before_E:
                    allowed.add("ready")
                    if exp_b:
                        allowed.add("expired")                  # arrived in time but first looked at after the expiry
                    elif m.E is not None and busy_cover(max(A, tb)) >= m.E - EPS:
                        allowed.add("expired")                  # processing delayed past the expiry by a running handler
                    elif m.E is not None and ahead is not None and ahead > 0 and busy:
                        allowed.add("expired")                  # frames ahead of it whose handlers run past the expiry
                elif tie:
                    allowed.update(("ready", "expired"))
                else:
                    allowed.add("expired")
            elif nb_serving:
                if exp_b:
                    allowed.add("expired")
                    if before_E or tie:
                        allowed.add("ready")
                elif ahead == 0:
                    allowed.add("ready")                        # the reply is next in line and it is not yet expired
                else:
                    allowed.add("pending")
                    if A is not None and A <= t + EPS and (before_E or tie):
                        allowed.add("ready")                    # behind other traffic, or arrived while this call ran
                    if m.expired_at(t):
                        allowed.add("expired")
            else:
                allowed.add("expired" if exp_b else "pending")
                if exp_b and ahead is not None and before_E:
                    allowed.add("pending") if False else None
            # observed status (read directly from the result object right after the operation)
            st = st_after
            if op in ("wait", "value"):
                st2 = "ready" if r[0] in ("ok", "exc") else "expired"
                if st2 != st and not (st2 == "expired" and st == "pending"):
                    viol.append(("inconsistent:%s-returned-%s-but-state-%s" % (op, r[0], st), "history %r" % (hist,)))
                st = st2
            elif op == "ready" and bool(r) != (st == "ready"):
                viol.append(("inconsistent:ready-query", "history %r: ready=%r but state %s" % (hist, r, st)))
            elif op == "expired" and bool(r) != (st == "expired"):
                viol.append(("inconsistent:expired-query", "history %r: expired=%r but state %s" % (hist, r, st)))
            elif op == "error" and bool(r) and st != "ready":
                viol.append(("inconsistent:error-query", "history %r: error=%r but state %s" % (hist, r, st)))
            if st is not None and st not in allowed:
                viol.append(("outcome:%s:got=%s:allowed=%s" % (op, st, "|".join(sorted(allowed))),
                             "history %r: %s at t=%.2f (T=%r, arrival=%r, expiry=%r) observed %r" % (
                                 hist, op, tb - sy.t0, T, None if A is None else A - sy.t0,
                                 None if m.E is None else m.E - sy.t0, r)))
            # timing of blocking operations
            if blocking and not m.negative:
                if st == "expired":
                    want = max(tb, m.E)
                    if t < want - EPS:
                        viol.append(("timeout-raised-early", "history %r: raised at %.3f, expiry at %.3f" % (hist, t - sy.t0, m.E - sy.t0)))
                    elif t > busy_cover(want) + EPS:
                        viol.append(("timeout-raised-late", "history %r: raised at %.3f, expiry at %.3f, waiter busy until %.3f" % (
                            hist, t - sy.t0, m.E - sy.t0, busy_cover(want) - sy.t0)))
                elif st == "ready":
                    want = max(tb, A)
                    if t > busy_cover(want) + EPS:
                        viol.append(("value-returned-late", "history %r: returned at %.3f, reply arrived at %.3f, busy until %.3f" % (
                            hist, t - sy.t0, A - sy.t0, busy_cover(want) - sy.t0)))
                    if t < A - EPS:
                        viol.append(("value-before-arrival", "history %r" % (hist,)))
            if st in ("ready", "expired"):
                m.status = st
                m.kind = Akind
        else:
            # ---- finality
            if op in ("wait", "value"):
                if m.status == "ready":
                    want = ("ok", "tok" if op == "value" else None) if m.kind == "val" else ("exc", ("boom",))
                    if op == "wait":
                        want = ("ok", None)
                    if r != want:
                        viol.append(("finality:ready-then-%s" % (r[0],), "history %r: %s gave %r, want %r" % (hist, op, r, want)))
                else:
                    if r[0] != "timeout":
                        viol.append(("finality:expired-then-%s" % (r[0],), "history %r: %s gave %r after expiry" % (hist, op, r)))
                if abs(t - tb) > EPS and not m.negative:
                    viol.append(("final-outcome-not-immediate", "history %r: %s took %.3f s after the outcome was final" % (hist, op, t - tb)))
            elif op == "ready" and r != (m.status == "ready"):
                viol.append(("finality:ready-query", "history %r: ready=%r in final state %s" % (hist, r, m.status)))
            elif op == "expired" and r != (m.status == "expired"):
                viol.append(("finality:expired-query", "history %r: expired=%r in final state %s" % (hist, r, m.status)))
            elif op == "error":
                want = (m.kind == "exc") if m.status == "ready" else False
                if bool(r) != want:
                    viol.append(("finality:error-query", "history %r: error=%r in final state %s/%s" % (hist, r, m.status, m.kind)))
    # ---- value fidelity for the first blocking op
    for ev, r, t, _st, _ah in sy.obs:
        if ev[0] == "value" and r[0] == "ok" and r[1] != "tok":
            viol.append(("wrong-value", "history %r: value %r" % (hist, r[1])))
    # ---- callbacks: exactly once each, registration order, only if ready, never after expiry
    ran = [i for (i, _, _) in sy.cblog]
    final_ready = bool(_raw_ready(res))
    if final_ready:
        # every registered callback must have run exactly once, in registration order; a callback registered by a
        # running callback is registered after readiness and therefore runs at once (right after its registrant)
        want_order = []
        for c_ in m.cbs:
            want_order.append(c_)
            if c_ in m.nested:
                want_order.append(m.nested[c_])
        if ran != want_order:
            viol.append(("callbacks:ran=%s:expected=%s" % (len(ran), len(want_order)),
                         "history %r: callbacks ran %r, expected %r" % (hist, ran, want_order)))
        elif False and ran != m.cbs:
            viol.append(("callbacks:ran=%s:registered=%s" % (len(ran), len(m.cbs)),
                         "history %r: callbacks ran %r, registered %r" % (hist, ran, m.cbs)))
    else:
        if ran:
            viol.append(("callbacks-ran-without-result", "history %r: callbacks %r ran but the result is not ready" % (hist, ran)))
    if any(not same for (_, _, same) in sy.cblog):
        viol.append(("callback-wrong-argument", "history %r" % (hist,)))
    # ---- canonical state + enabled events
    now = S_now(sy)
    rel = None if res._ttl.tmax is None else round(res._ttl.tmax - now, 3)
    if rel is not None and rel <= 0:
        rel = "past"     # an expiry in the past has the same future whatever its distance
    key = (mode, T, bool(_raw_ready(res)), res._is_exc, rel,
           res._ttl.finite, tuple(sorted((round(a - now, 3), k) for a, k in arrivals if a > now + EPS)),
           _ADDR.sub(b'#', bytes(sy.a.inbox)), tuple(m.cbs), tuple(ran), len(res._callbacks), m.status,
           tuple(sorted(x for x in sy.pending_unrel(now))), len(sy.conn._request_callbacks))
    return key, enabled_events(sy, m, arrivals, now), viol, None


import re as _re
_ADDR = _re.compile(rb'\d{9,}')     # object addresses inside boxed references are not part of the state


def _raw_ready(res):
    return res._is_ready


def _ready_after(sy, ev, r):
    return _raw_ready(sy.res)


def S_now(sy):
    return sy.obs[-1][2] if sy.obs else sy.t0


def _pending_unrel(self, now):
    return getattr(self, "unrel_times", [])


Sys.pending_unrel = _pending_unrel

REPLY_DELAYS = (0, 0.5, 1.0, 1.5, 2.5)


def enabled_events(sy, m, arrivals, now, thorough=None):
    thorough = THOROUGH[0] if thorough is None else thorough
    evs = []
    scheduled = bool(arrivals)
    if not scheduled:
        for d in REPLY_DELAYS:
            evs.append(("sched_reply", d, "val"))
        evs.append(("sched_reply", 0, "exc"))
        if thorough:
            evs.append(("sched_reply", 1.0, "exc"))
    evs.append(("tick", 0.5))
    if thorough:
        evs.append(("tick", 1.0))
    for i in (1, 2):
        if i not in m.cbs:
            evs.append(("add_cb", i))
            if i == 1 or thorough:
                evs.append(("add_cb_nested", i))
            break
    evs += [("ready",), ("expired",), ("error",)]
    if sy.a.inbox:
        evs.append(("serve",))
    # blocking operations need something that ends them
    res = sy.res
    finite = res._ttl.finite
    if scheduled or finite or _raw_ready(res):
        evs.append(("value",))
        evs.append(("wait",))
    nun = sum(1 for e, _, _, _, _ in sy.obs if e[0] == "unrel_req")
    if nun < (2 if thorough else 1):
        evs.append(("unrel_req", 0, 0.75))
        evs.append(("unrel_req", 0.5, 0.75))
        evs.append(("unrel_req", 0, 0))
        if thorough:
            evs.append(("unrel_req", 1.0, 0.75))
    if not any(e[0] == "unrel_reply" for e, _, _, _, _ in sy.obs):
        evs.append(("unrel_reply",))
    nse = sum(1 for e, _, _, _, _ in sy.obs if e[0] == "set_expiry")
    # re-arming a result whose outcome is already final is outside the property's domain (its orderings are of arrival,
    # expiry, registration, queries, waits and traffic): the expiry is only changed while the result is pending
    if nse < (2 if thorough else 1) and m.status == "pending":
        evs.append(("set_expiry", 1))
        if thorough:
            evs.append(("set_expiry", 0.5))
    return evs


THOROUGH = [False]
CONFIGS = {
    "quick": dict(depth=9, modes=[("async", None), ("async", 1), ("async", 0), ("async", -1), ("async", 2), ("timed", 1),
                                  ("async", "unset")]),
    "thorough": dict(depth=11, modes=[("async", None), ("async", 1), ("async", 0), ("async", -1), ("async", 2),
                                     ("timed", 1), ("timed", 2), ("timed", 0), ("async", "unset")]),
}


def make_expand(mode, T):
    def expand(hist, ev):
        return check_history(mode, T, list(hist) + [ev])
    return expand


def sync_matrix():
    """sync_request == async_request carrying the configured timeout: all (T, arrival) pairs"""
    viol = []
    n = 0
    samples = []
    for T, d, kind, age in [(T, d, kind, age) for T in (None, 0, 1, 2, -1) for d in (None, 0, 0.5, 1.0, 1.5, 2.5)
                            for kind in ("val", "exc") for age in (0, 0.75, 5)]:
            if True:
                if d is None and (T is None or T < 0):
                    continue
                n += 1
                outcome, out = run_sync(T, d, kind, age)
                if outcome != "done" or out is None:
                    viol.append(("sync:harness:%s" % outcome, "T=%r d=%r age=%r" % (T, d, age)))
                    continue
                (res, val), dt, left = out
                finite = T is not None and T >= 0
                if finite and (d is None or d > T + EPS):
                    want, wt = {"timeout"}, T
                elif finite and abs(d - T) <= EPS:
                    want, wt = {"timeout", "ok" if kind == "val" else "exc"}, T
                else:
                    want, wt = {"ok" if kind == "val" else "exc"}, d
                if res not in want:
                    viol.append(("sync:outcome:got=%s:want=%s" % (res, "|".join(sorted(want))), "T=%r arrival=%r kind=%s connection-age=%r -> %r" % (T, d, kind, age, out)))
                elif abs(dt - wt) > EPS:
                    viol.append(("sync:timing", "T=%r arrival=%r connection-age=%r: returned after %.3f, want %.3f" % (T, d, age, dt, wt)))
                if len(samples) < 3:
                    samples.append({"sync_request_timeout": T, "reply_after": d, "kind": kind, "observed": repr(out)})
    return n, viol, samples


def dropped_handle_cases():
    """the requester registers a callback and lets go of the handle (`async_(f)(x).add_callback(cb)`), or hands the callback
    to the connection directly: the reply must still be delivered to it, once"""
    viol = []
    n = 0
    for how in ("add_callback-then-drop-the-handle", "raw-callback"):
        for kind in ("val", "exc"):
            n += 1
            box = {}

            def main():
                sy = Sys("async", None)
                c = sy.conn
                ran = []
                if how == "raw-callback":
                    c._async_request(consts.HANDLE_PING, ("tok",), callback=lambda is_exc, obj: ran.append((is_exc, obj if not is_exc else type(obj).__name__)))
                else:
                    c.async_request(consts.HANDLE_PING, "tok").add_callback(lambda r: ran.append((r.error, "tok" if not r.error else "exc")))
                gc.collect()
                msgs = sy.peer_drain()
                sy.req_seq = msgs[0][1]
                sy.b.write(sy.reply_bytes(kind))
                c.serve(0)
                box["ran"] = list(ran)
                box["left"] = len(c._request_callbacks)
            gc.disable()
            sch = S.Scheduler((), sync_points=False, io_points=False, horizon=100)
            sch.run(main)
            gc.disable()
            if sch.outcome != "done" or "ran" not in box:
                viol.append(("dropped-handle:harness:%s" % sch.outcome, "%s %s %r" % (how, kind, sch.threads[0].exc)))
            elif len(box["ran"]) != 1:
                viol.append(("dropped-handle:callback-ran-%d-times" % len(box["ran"]), "%s, reply kind %s: the reply arrived, the callback ran %r" % (how, kind, box["ran"])))
    return n, viol


def replay(rep):
    THOROUGH[0] = rep.get("tier") == "thorough"
    env.silence_unraisable()
    if rep.get("part") == "sync-matrix":
        n, viol, _ = sync_matrix()
        print("sync matrix: %d cases, violations %r" % (n, viol))
        return 1 if viol else 0
    mode, T = rep["mode"], rep["T"]
    hist = [tuple(e) for e in rep["history"]]
    outs = []
    for _ in range(2):
        key, en, viol, _ = check_history(mode, T, hist)
        outs.append((key, [v[0] for v in viol]))
    if outs[0] != outs[1]:
        print("REPLAY-DIVERGENCE", outs)
        return 2
    print("replayed mode=%s T=%r history=%r -> %r" % (mode, T, hist, outs[0][1]))
    return 1 if outs[0][1] else 0


def main(tier, replay_obj=None):
    if replay_obj is not None:
        return replay(replay_obj)
    env.silence_unraisable()
    THOROUGH[0] = tier == "thorough"
    res = runner.Result(PID, "model_checking", tier,
                        "explicit-state BFS (virtual time) over histories of {schedule reply after d, tick, add_callback, ready/error/"
                        "expired, wait, value, unrelated request with a slow handler, stray reply, set_expiry} on a real Connection + "
                        "scripted reference peer, for every creation mode/timeout; each history is replayed on the real code and every "
                        "observation compared with the reference model's set of acceptable outcomes; distinct = canonical states")
    cfg = CONFIGS[tier]
    cap = 240 if tier == "quick" else 3000
    n, viol, samples = sync_matrix()
    res.evaluations += n
    res.traces += n
    for s in samples:
        res.add_sample(s)
    for sig, text in viol:
        res.violation(sig, text, {"part": "sync-matrix"})
    n, viol = dropped_handle_cases()
    res.evaluations += n
    res.parts["dropped-handle"] = {"cases": n}
    for sig, text in viol:
        res.violation(sig, text, {"part": "sync-matrix"})
    for mode, T in cfg["modes"]:
        name = "%s/T=%r" % (mode, T)
        k0, ev0, v0, _ = check_history(mode, T, [])
        r = bfs.bfs(make_expand(mode, T), ev0, cfg["depth"], init_key=k0, max_seconds=cap / len(cfg["modes"]) * 2,
                    stop=lambda sig: True, chunksize=16)
        res.parts[name] = r.as_dict()
        res.states += r.states
        res.transitions += r.transitions
        res.evaluations += r.transitions
        res.traces += r.transitions
        res.distinct_count_extra += r.states
        res.bounds[name] = "depth %d" % r.depth
        for s in r.samples[:1]:
            res.add_sample(dict(part=name, **s))
        # the depth bound is the stated bound, not a cap; time caps are caps
        for c in r.caps:
            if not c.startswith("depth="):
                res.caps.append("%s:%s" % (name, c))
        for sig, text, hist in r.violations + [(s_, t_, []) for s_, t_ in v0]:
            res.violation(sig, text, {"mode": mode, "T": T, "history": hist})
        if r.violations:
            break
    res.info["depth_bound"] = cfg["depth"]
    res.exhaustive = not res.caps
    res.assumptions = [
        "virtual time: computation takes no time; the clock advances only when every thread is blocked",
        "times are multiples of 0.25 s so that arrival == expiry ties are exercised; ties and 'arrived before the expiry but first "
        "looked at after it' accept both outcomes (the statement is silent)",
        "negative timeouts: only finality and callback discipline are compared",
        "exhaustive up to the stated history depth (bounded search, not a cap)",
    ]
    return res.finish()
