"""C03 -- immutable values travel by copy, everything else by reference; identity survives.

Part V (inputs): every grammar value (atoms, composites to depth 2/3, every non-dumpable kind, tuples mixing
values and references) is sent to the peer; oracle = the statement's own predicate plain_immutable(v):
  plain  => the peer's handler sees a non-proxy, type- and structure-identical (bit-exact);
  tuple  => a tuple whose plain items are values and whose other items are references;
  other  => a reference: echoed back it IS the original object; sent again while the first proxy is alive
            it is the same proxy; a mutation through it is visible at the owner.
Part H (histories): explicit-state enumeration of all histories up to a depth bound over
  {send k (sync | async | in a tuple | twice in one tuple), collect async results, echo k back, drop k,
   send k's reference onward over a second connection (3-node chain) and echo it back through both hops}
for objects of a built-in class and of a user class (class not yet known to the peer => nested class
inspection during unboxing).  Oracle: at every step, all live proxies for one object at one peer are the same
proxy; what comes back to the owner is the original object.
Part O: obtain / deliver (classic mode): equal but independent copies.
"""
import itertools

from mc import env
rpyc = env.install_sim()
from mc import sched as S, pair, runner, values as V      # noqa: E402
import rpyc as _rpyc                                      # noqa: E402
from rpyc.core import netref, brine                       # noqa: E402
from rpyc.utils import classic                            # noqa: E402
from rpyc.core.service import SlaveService                # noqa: E402

PID = "C03"
EXPECT = {}


def is_proxy(x):
    return isinstance(type(x), netref.NetrefMetaclass)


class Recv(_rpyc.Service):
    def __init__(self):
        self.seen = []
        self.held = {}

    def exposed_probe(self, x):
        self.seen.append(x)
        return None

    def exposed_echo(self, x):
        return x

    def exposed_hold(self, key, x):
        self.held.setdefault(key, []).append(x)

    def exposed_give(self, key, i=-1):
        return self.held[key][i]

    def exposed_drop(self, key):
        self.held.pop(key, None)

    def exposed_make(self, i, wrap=False):
        """an object of the peer's own (part P): pair_values()[i], bare or inside a tuple next to a reference"""
        v = pair_values()[i][1]
        self.made = [v, [0]]
        return (v, self.made[1]) if wrap else v

    def exposed_mutate(self, x):
        c = x.__class__.__name__
        if c == "list":
            x.append("m")
        elif c == "dict":
            x["m"] = 1
        elif c == "set":
            x.add("m")
        elif c == "bytearray":
            x.extend(b"m")
        elif c == "Plain":
            x.mark = "m"
        return c


def expected_view(v):
    """how the peer must see v: ('val', v) | ('tuple', [...]) | ('ref',)"""
    if V.plain_immutable(v):
        return ("val", v)
    if type(v) is tuple:
        return ("tuple", [expected_view(i) for i in v])
    return ("ref",)


def view_matches(x, exp, path="x"):
    if exp[0] == "val":
        if is_proxy(x):
            return "%s: plain immutable value arrived as a reference (%s)" % (path, type(exp[1]).__name__)
        if not V.same(x, exp[1]):
            return "%s: value changed in transit: %s -> %s" % (path, V.short(exp[1]), V.short(x))
        return None
    if exp[0] == "tuple":
        if is_proxy(x):
            return "%s: tuple arrived as a reference" % path
        if type(x) is not tuple or len(x) != len(exp[1]):
            return "%s: tuple arrived as %s" % (path, type(x).__name__)
        for i, (xi, ei) in enumerate(zip(x, exp[1])):
            r = view_matches(xi, ei, "%s[%d]" % (path, i))
            if r:
                return r
        return None
    if not is_proxy(x):
        return "%s: non-plain object arrived by value as %s" % (path, type(x).__name__)
    return None


def value_cases(tier):
    cases = []
    for i, a in enumerate(V.atoms(big=(tier == "thorough"))):
        cases.append(("atom#%d" % i, a))
    for i, a in enumerate(V.arity_values()[:-1] if tier == "quick" else V.arity_values()):
        cases.append(("arity#%d" % i, a))
    comps = V.composites(2)
    if tier == "quick":
        comps = comps[::5]
    for i, c in enumerate(comps):
        cases.append(("comp#%d" % i, c))
    for name, nd in V.nondumpables():
        if name in ("generator", "memoryview"):
            continue
        cases.append(("non:" + name, nd))
        cases.append(("mix:" + name, (1, nd, "s", (2, nd))))
        cases.append(("mix2:" + name, ((nd,), None)))
    return cases


CFG = {"allow_all_attrs": True, "allow_setattr": True, "allow_public_attrs": True, "allow_pickle": True}


def check_values(cases):
    """all cases over ONE connection pair (histories of sends are part H's subject)"""
    env.silence_unraisable()
    viol = []
    svc = Recv()
    w = pair.World(_rpyc.VoidService(), svc, CFG, CFG)
    kinds = set()

    def main():
        w.start_server()
        root = w.cconn.root
        for label, v in cases:
            del svc.seen[:]
            exp = expected_view(v)
            kinds.add((type(v).__name__, exp[0]))
            try:
                root.probe(v)
            except S.SimAbort:
                raise
            except Exception as ex:
                viol.append(("send-raised:%s:%s" % (type(ex).__name__, exp[0]), "%s: %r" % (label, ex)))
                continue
            if len(svc.seen) != 1:
                viol.append(("handler-ran-%d-times" % len(svc.seen), label))
                continue
            x = svc.seen[0]
            r = view_matches(x, exp)
            if r:
                kind = "value-arrived-as-reference" if "as a reference" in r else (
                    "reference-arrived-as-value" if "by value" in r else "value-changed")
                viol.append(("%s:%s" % (kind, type(v).__name__), "%s: %s" % (label, r)))
                continue
            if exp[0] == "ref":
                # identity: echoed back it is the original; received again while alive it is the same proxy
                try:
                    back = root.echo(v)
                except Exception as ex:
                    viol.append(("echo-raised:%s" % type(ex).__name__, "%s: %r" % (label, ex)))
                    continue
                if back is not v:
                    viol.append(("echoed-reference-is-not-the-original:%s" % type(v).__name__, label))
                del svc.seen[:]
                root.hold("k", v)
                root.hold("k", v)
                h = svc.held.pop("k")
                if h[0] is not h[1]:
                    viol.append(("second-proxy-while-first-alive:%s" % type(v).__name__, label))
                del h
                # mutation through the reference is a change to the owner's object
                if type(v) in (list, dict, set, bytearray, V.Plain):
                    c = root.mutate(v)
                    ok = {"list": lambda: v[-1] == "m", "dict": lambda: v.get("m") == 1, "set": lambda: "m" in v,
                          "bytearray": lambda: v.endswith(b"m"), "Plain": lambda: getattr(v, "mark", None) == "m"}[c]()
                    if not ok:
                        viol.append(("mutation-not-visible-at-owner:%s" % c, label))
            del svc.seen[:]
            x = None
        del root

    sch, _, exc = pair.run(main, horizon=100000, world=w, max_steps=5000000)
    if exc is not None or sch.outcome != "done":
        viol.append(("harness:%s" % sch.outcome, repr(exc)))
    return len(cases), viol, kinds


# ------------------------------------------------------------------ part P: ordered pairs (the decision must not depend on history)
def pair_values():
    """one representative per (type, by-value / by-reference) class"""
    vals = [("int", 5), ("bool", True), ("none", None), ("float", 1.5), ("complex", 1j), ("str", "s"), ("bytes", b"b"),
            ("tuple", (1, "a")), ("empty-tuple", ()), ("frozenset", frozenset([1, 2])), ("empty-frozenset", frozenset()),
            ("slice", slice(1, 3, None)), ("ellipsis", Ellipsis), ("notimplemented", NotImplemented),
            ("nested", (1, (frozenset([2]), slice(None, 2, None))))]
    keep = ("list", "dict", "object", "function", "class", "intenum", "namedtuple", "strsub", "intsub", "floatsub", "bytessub", "tuplesub",
            "frozensetsub", "tuple-with-list", "frozenset-with-intsub", "frozenset-with-namedtuple", "slice-with-list",
            "slice-with-strsub", "empty-list", "falsy-instance")
    nd = dict(V.nondumpables())
    vals += [(k, nd[k]) for k in keep]
    return vals


def check_pairs(first_indices):
    """for every ordered pair (first, second): `first` is sent on a fresh connection, then `second` travels (a) alone,
    (b) inside a tuple next to a reference, (c) as a bare result - each time it must arrive exactly as it does on a
    connection without that history (the statement's predicate)"""
    env.silence_unraisable()
    viol = []
    n = [0]
    vals = pair_values()
    for fi in first_indices:
        fname, first = vals[fi]
        svc = Recv()
        w = pair.World(Recv(), svc, CFG, CFG)

        def main():
            w.start_server()
            root = w.cconn.root
            marker = [0]
            try:
                root.probe(first)
                root.probe((first, marker))
                root.make(fi)
                root.make(fi, True)
            except S.SimAbort:
                raise
            except Exception as ex:    # noqa
                viol.append(("send-raised:%s" % type(ex).__name__, "first=%s: %r" % (fname, ex)))
                return
            for si, (sname, second) in enumerate(vals):
                exp = expected_view(second)
                for ctx in ("alone", "beside-a-reference", "as-result", "as-result-beside-a-reference"):
                    n[0] += 1
                    del svc.seen[:]
                    try:
                        if ctx == "alone":
                            root.probe(second)
                            x, e = svc.seen[0], exp
                        elif ctx == "beside-a-reference":
                            root.probe((second, marker))
                            x, e = svc.seen[0], ("tuple", [exp, ("ref",)])
                        elif ctx == "as-result":
                            x, e = root.make(si), exp
                        else:
                            x, e = root.make(si, True), ("tuple", [exp, ("ref",)])
                    except S.SimAbort:
                        raise
                    except Exception as ex:    # noqa
                        viol.append(("send-raised:%s" % type(ex).__name__, "after %s: %s %s: %r" % (fname, sname, ctx, ex)))
                        continue
                    r = view_matches(x, e)
                    if r:
                        kind = "value-arrived-as-reference" if "as a reference" in r else (
                            "reference-arrived-as-value" if "by value" in r else "value-changed")
                        viol.append(("history-dependent-transfer:%s:%s:%s" % (kind, type(second).__name__, ctx),
                                     "after sending %s: %s (%s): %s" % (fname, sname, ctx, r)))
                    x = None
            del svc.seen[:]
            del root

        sch, _, exc = pair.run(main, horizon=100000, world=w, max_steps=5000000)
        if exc is not None or sch.outcome != "done":
            viol.append(("harness:%s" % sch.outcome, "first=%s %r" % (fname, exc)))
    return n[0], viol[:20]


# ------------------------------------------------------------------ part H: histories
class Thing(object):
    def __init__(self, k):
        self.k = k


MODES = ("sync", "async", "tuple", "twice")


def run_history(kind, hist, chain):
    """objects o1,o2 owned by the client C; peer S (and, with chain, a third node T behind S).
    returns violations"""
    svcS, svcT = Recv(), Recv()
    w = pair.World(_rpyc.VoidService(), svcS, CFG, CFG)
    w2 = pair.World(_rpyc.VoidService(), svcT, CFG, CFG) if chain else None
    objs = {1: ([1] if kind == "list" else Thing(1)), 2: ([2] if kind == "list" else Thing(2))}
    viol = []

    def same_proxy_check(where, svc):
        for key, lst in svc.held.items():
            flat = []
            for x in lst:
                flat.extend(x if type(x) is tuple else (x,))
            flat = [x for x in flat if is_proxy(x)]
            for a, b in itertools.combinations(flat, 2):
                if a is not b:
                    viol.append(("two-live-proxies-for-one-object:%s" % kind, "%s holds distinct proxies for object %s" % (where, key)))
                    return

    def main():
        w.start_server()
        root = w.cconn.root
        aroot_hold = _rpyc.async_(root.hold)
        if chain:
            # S is the client of T over w2; S's actor for the second hop runs in its own thread
            w2.start_server()
            troot = w2.cconn.root
            actS = pair.Actor("S-actor").start()
        pend = []
        for ev in hist:
            op = ev[0]
            if op == "send":
                _, k, mode = ev
                o = objs[k]
                if mode == "sync":
                    root.hold(k, o)
                elif mode == "async":
                    pend.append(aroot_hold(k, o))
                elif mode == "tuple":
                    root.hold(k, (o, 0))
                else:
                    root.hold(k, (o, o))
            elif op == "collect":
                for a in pend:
                    a.wait()
                del pend[:]
            elif op == "echo":
                k = ev[1]
                if k in svcS.held:
                    back = root.give(k)
                    back = back[0] if type(back) is tuple else back
                    if back is not objs[k]:
                        viol.append(("echoed-reference-is-not-the-original:%s" % kind, "history %r" % (hist,)))
                    del back
            elif op == "drop":
                root.drop(ev[1])
            elif op == "onward":
                # S forwards its reference to T (rpyc over rpyc), T echoes it back to S, S gives it back to C
                k = ev[1]
                if chain and k in svcS.held:
                    def hop():
                        p = svcS.held[k][-1]
                        p = p[0] if type(p) is tuple else p
                        troot.hold(k, p)
                        q = troot.give(k)
                        if q is not p:
                            viol.append(("second-hop-echo-is-not-the-same-proxy:%s" % kind, "history %r" % (hist,)))
                        svcS.held[k].append(q)
                    # S acts in its own thread; C (this thread) keeps serving its connection meanwhile
                    actS.submit(hop)
                    for _ in range(200):
                        if not actS.busy and actS.cmd is None:
                            break
                        w.cconn.serve(0.05)
                    else:
                        raise S.HarnessError("second hop did not finish")
                    if actS.exc is not None:
                        e, actS.exc = actS.exc, None
                        raise e
            same_proxy_check("S", svcS)
            if chain:
                same_proxy_check("T", svcT)
            if viol:
                break
        for a in pend:
            a.wait()
        del pend[:]
        same_proxy_check("S", svcS)
        svcS.held.clear()
        svcT.held.clear()
        del root, aroot_hold
        if chain:
            del troot

    sch, _, exc = pair.run(main, horizon=100000, world=w)
    if w2 is not None:
        w2.shutdown()
    if exc is not None:
        viol.append(("history-raised:%s" % type(exc).__name__, "history %r: %r" % (hist, exc)))
    elif sch.outcome != "done":
        viol.append(("scheduler:%s" % sch.outcome, "history %r" % (hist,)))
    return viol


def histories(depth, chain):
    evs = [("send", k, m) for k in (1, 2) for m in MODES] + [("collect",), ("echo", 1), ("drop", 1), ("drop", 2)]
    if chain:
        evs += [("onward", 1)]
    out = []
    for d in range(1, depth + 1):
        for h in itertools.product(evs, repeat=d):
            # prune: first event must be a send; echo/drop/onward only after some send of that object
            if h[0][0] != "send":
                continue
            sent = set()
            ok = True
            for e in h:
                if e[0] == "send":
                    sent.add(e[1])
                elif e[0] in ("echo", "drop", "onward") and e[1] not in sent:
                    ok = False
                    break
            if ok:
                out.append(h)
    return out


def run_hist_chunk(kind, chain, hs):
    env.silence_unraisable()
    out = []
    for h in hs:
        v = run_history(kind, list(h), chain)
        if v:
            out.append((h, v))
            if len(out) >= 3:
                break
    return len(hs), out


# ------------------------------------------------------------------ part O: obtain / deliver
def check_same_name_classes():
    """two DISTINCT classes with the same qualified name (a class factory, namedtuple() called twice): each is its own object
    - the peer must get two different references, each reaching its own class, and echoing gives the original back"""
    env.silence_unraisable()
    viol = []
    svc = Recv()
    w = pair.World(_rpyc.VoidService(), svc, CFG, CFG)
    n = [0]

    def make(tag):
        return type("Widget", (object,), {"tag": tag, "__module__": "c03_factory"})

    def main():
        w.start_server()
        root = w.cconn.root
        import collections
        for kind, c1, c2 in (("class", make("one"), make("two")),
                             ("namedtuple-class", collections.namedtuple("Point", "x y"), collections.namedtuple("Point", "a b c"))):
            n[0] += 1
            root.hold("c", c1)
            root.hold("c", c2)
            h = svc.held.pop("c")
            if h[0] is h[1]:
                viol.append(("same-name-classes:one-proxy-for-two-objects:%s" % kind, ""))
            else:
                g = object.__getattribute__
                seen = (g(h[0], "____id_pack__")[1], g(h[1], "____id_pack__")[1])     # which object each reference names
                want = (id(c1), id(c2))
                if tuple(seen) != tuple(want):
                    viol.append(("same-name-classes:reference-reaches-the-wrong-class:%s" % kind, "%r instead of %r" % (seen, want)))
            if root.echo(c2) is not c2 or root.echo(c1) is not c1:
                viol.append(("same-name-classes:echo-is-not-the-original:%s" % kind, ""))
            del h
        del root

    sch, _, exc = pair.run(main, horizon=100000, world=w)
    if exc is not None or sch.outcome != "done":
        viol.append(("same-name-classes:harness:%s" % sch.outcome, repr(exc)))
    return n[0], viol


def check_obtain_deliver():
    viol = []
    n = 0
    box = {}
    w = pair.World(connect_now=False)

    def main():
        from rpyc.core.channel import Channel
        w.sconn = SlaveService()._connect(Channel(w.b), {})
        w.start_server()
        w.cconn = _rpyc.classic.ClassicService()._connect(Channel(w.a), {}) if False else \
            _rpyc.core.service.MasterService()._connect(Channel(w.a), {})
        c = w.cconn
        samples = [[1, [2, 3]], {"a": (1, 2)}, {1, 2}, bytearray(b"xy")]
        cnt = 0
        for o in samples:
            cnt += 1
            # deliver: equal but independent copy on the peer
            p = classic.deliver(c, o)
            if not is_proxy(p):
                viol.append(("deliver-did-not-return-a-reference", repr(o)))
                continue
            remote_copy = classic.obtain(p)
            if remote_copy != o or remote_copy is o:
                viol.append(("deliver-copy-differs:%s" % type(o).__name__, "%r -> %r" % (o, remote_copy)))
            # mutate the remote copy: the local original must not change
            before = repr(o)
            if type(o) is list:
                p.append("z")
            elif type(o) is dict:
                p["z"] = 1
            elif type(o) is set:
                p.add("z")
            elif type(o) is bytearray:
                p.extend(b"z")
            if repr(o) != before:
                viol.append(("deliver-copy-not-independent:%s" % type(o).__name__, repr(o)))
            # obtain: equal but independent local copy of a remote object
            got = classic.obtain(p)
            if is_proxy(got):
                viol.append(("obtain-returned-a-reference:%s" % type(o).__name__, ""))
            if type(o) is list:
                got.append("local-only")
                if classic.obtain(p) == got:
                    viol.append(("obtain-copy-not-independent:list", ""))
            del p
        # obtain of a value that arrived as a local TUPLE whose items are references (the shell travels by value, the items
        # by reference): the result must be a fully local copy, equal to the original and independent of it
        c.execute("mix = ([1, 2], 7, ('x', {'k': 1}))")
        cnt += 1
        t = c.eval("mix")
        got = classic.obtain(t)
        flat = [got[0], got[2][1]] if (type(got) is tuple and len(got) == 3 and type(got[2]) is tuple) else [got]
        if any(is_proxy(x) for x in flat) or got != ([1, 2], 7, ("x", {"k": 1})):
            viol.append(("obtain-of-a-tuple-left-references-inside", "%r" % ([type(x).__name__ for x in flat],)))
        else:
            got[0].append(99)
            got[2][1]["k"] = "changed"
            if c.eval("repr(mix)") != repr(([1, 2], 7, ("x", {"k": 1}))):
                viol.append(("obtain-copy-not-independent:tuple-of-references", c.eval("repr(mix)")))
        del t
        box["n"] = cnt

    sch, _, exc = pair.run(main, horizon=100000, world=w)
    if exc is not None or sch.outcome != "done":
        viol.append(("obtain-deliver-harness:%s" % sch.outcome, repr(exc)))
    return box.get("n", 0) * 4, viol


def chunks(xs, n):
    return [xs[i:i + n] for i in range(0, len(xs), n)]


def replay(rep):
    env.silence_unraisable()
    if rep["part"] == "values":
        cases = dict(value_cases(rep.get("tier", "thorough")))
        lab = rep["label"]
        a = check_values([(lab, cases[lab])])[1]
        b = check_values([(lab, cases[lab])])[1]
    elif rep["part"] == "obtain":
        a = check_obtain_deliver()[1]
        b = check_obtain_deliver()[1]
    else:
        h = [tuple(e) for e in rep["history"]]
        a = run_history(rep["kind"], h, rep["chain"])
        b = run_history(rep["kind"], h, rep["chain"])
    if [x[0] for x in a] != [x[0] for x in b]:
        print("REPLAY-DIVERGENCE", a, b)
        return 2
    print("replayed -> %r" % (a,))
    return 1 if a else 0


def main(tier, replay_obj=None):
    if replay_obj is not None:
        return replay(replay_obj)
    env.silence_unraisable()
    depth = 3 if tier == "quick" else 4
    res = runner.Result(PID, "model_checking", tier,
                        "V: every grammar value sent through a real Connection pair and classified against the statement's plain-immutable "
                        "predicate (plus echo/identity/mutation checks for references); H: all histories up to depth %d over {send k sync/async/"
                        "in tuple/twice, collect, echo, drop, forward over a second hop} for built-in-class and user-class objects, 1 and 2 hops; "
                        "O: obtain/deliver; states = histories + values, transitions = events" % depth)
    known = runner.load_known()
    cases = value_cases(tier)
    idx = list(range(len(cases)))

    def by_index(ii):
        # values hold lambdas/modules: regenerate them in the worker instead of pickling
        cs = value_cases(tier)
        return check_values([cs[i] for i in ii])
    outs = runner.pmap(by_index, [(c,) for c in chunks(idx, max(20, len(cases) // 32))])
    kinds = set()
    n = 0
    for nn, viol, kk in outs:
        n += nn
        kinds |= kk
        for sig, text in viol:
            res.violation(sig, text, {"part": "values", "label": text.split(":")[0] + (":" + text.split(":")[1] if text.startswith(("non", "mix")) else "")})
    res.evaluations += n
    res.states += n
    res.transitions += n
    res.traces += n
    res.parts["values"] = {"values": n, "type_view_classes": len(kinds)}
    for k in kinds:
        res.nontrivial(("v", k))
    res.add_sample({"value": "('mix', (1, [..], 's', (2, [..])))  -> tuple of value/reference/value/tuple"})
    for kind in ("list", "thing"):
        for chain in (False, True):
            hs = histories(depth if not chain else max(2, depth - 1), chain)
            outs = runner.pmap(run_hist_chunk, [(kind, chain, c) for c in chunks(hs, 100)])
            name = "hist/%s/%s" % (kind, "2hops" if chain else "1hop")
            m = sum(o[0] for o in outs)
            res.parts[name] = {"histories": m}
            res.states += m
            res.transitions += sum(len(h) for h in hs)
            res.evaluations += m
            res.traces += m
            res.distinct_count_extra += m
            res.add_sample({"part": name, "history": [list(e) for e in hs[len(hs) // 3]]})
            for _, bad in outs:
                for h, v in bad:
                    for sig, text in v:
                        res.violation(sig, "history %r: %s" % (list(h), text), {"part": "hist", "kind": kind, "chain": chain, "history": [list(e) for e in h]})
    nv = len(pair_values())
    outs = runner.pmap(check_pairs, [([i],) for i in range(nv)])
    m = sum(o[0] for o in outs)
    res.parts["ordered-pairs"] = {"values": nv, "pairs_x_contexts": m}
    res.evaluations += m
    res.states += m
    res.transitions += m
    res.traces += m
    for _, viol in outs:
        for sig, text in viol:
            res.violation(sig, text, {"part": "pairs"})
    n, viol = check_same_name_classes()
    res.evaluations += n
    res.parts["same-name-classes"] = {"checks": n}
    for sig, text in viol:
        res.violation(sig, text, {"part": "same-name"})
    n, viol = check_obtain_deliver()
    res.evaluations += n
    res.parts["obtain-deliver"] = {"checks": n}
    for sig, text in viol:
        res.violation(sig, text, {"part": "obtain"})
    res.assumptions = ["deterministic default schedule; delivery races between release notices and re-sent references are C10's subject",
                       "generators and memoryviews are left out of part V (consumed / not weak-referenceable harness artefacts)"]
    return res.finish()
