"""C18 -- the registry reflects exactly the live registrations and cannot be knocked over.

Part A (histories): explicit-state BFS over {register(h, p, aliases), unregister(h, p), query(name), clock advance}
for 2 hosts x 2 ports x 2 alias sets against the REAL UDPRegistryServer main loop (fed through the simulated UDP
layer, virtual clock), compared step by step with a reference dict model: query replies (oldest refresh first, ties
in any order, case-insensitive) and the notification log (added only for non-members, removed only for members,
log-implied membership == query answers).
Part B (malformed input): every grammar value as the whole datagram and in each of the three fields, all byte strings
up to length 2, every truncation of valid datagrams - each followed by a valid query: the loop is still running, the
registrations are unchanged and the query is answered.
Part C (TCP registry on the simulated socket layer, scheduler): a silent client, a partial-data client and a
well-behaved client in every arrival order: the well-behaved one is answered.
"""
import itertools

from mc import env
rpyc = env.install_sim()
from mc import sched as S, simos, runner, values as V, refcodec as R, bfs     # noqa: E402
from rpyc.utils import registry                                               # noqa: E402
from rpyc.core import brine                                                   # noqa: E402

simos.install(("registry",))
PID = "C18"
T = 10.0            # pruning interval (virtual seconds)
REG_PORT = 18811
HOSTS = {"A": ("10.0.0.1", 5001), "B": ("10.0.0.2", 5002)}
ALIASES = {"a1": ("foo",), "a2": ("Foo", "bar"), "a3": ("baz",)}    # a2 overlaps a1 (case-insensitively), a3 is disjoint
QUERIES = ("foo", "FOO", "bar", "baz", "nope")


class Notes(object):
    pass


class Sys(object):
    """the real UDP registry server + scripted clients, single-threaded: datagrams are queued, then the real main
    loop runs until the queue is empty"""

    def __init__(self, pruning=T):
        simos.reset_kernel()
        S.sim_time.fallback = 1000.0
        self.log = []
        sys_ = self

        class Srv(registry.UDPRegistryServer):
            def on_service_added(self, name, addrinfo):
                sys_.log.append(("added", name, addrinfo))

            def on_service_removed(self, name, addrinfo):
                sys_.log.append(("removed", name, addrinfo))

        import logging
        lg = logging.getLogger("c18")
        lg.disabled = True
        self.srv = Srv(host="0.0.0.0", port=REG_PORT, pruning_timeout=pruning, logger=lg)
        self.clients = {}
        for h, addr in HOSTS.items():
            s = simos.SimSocket(simos._real_socket.AF_INET, simos._real_socket.SOCK_DGRAM)
            s.bind(addr)
            s.settimeout(0.0)
            self.clients[h] = s
        real = self.srv.sock
        srv = self.srv

        class Feed(object):
            """the server's socket, except that an empty queue ends the loop (instead of waiting forever)"""

            def recvfrom(self, n):
                if not real._of.dgrams:
                    srv.active = False
                    raise simos._real_socket.timeout("script exhausted")
                return real.recvfrom(n)

            def __getattr__(self, name):
                return getattr(real, name)
        self.srv.sock = Feed()
        self.loop_died = None

    def send(self, host, payload_bytes):
        self.clients[host].sendto(payload_bytes, ("127.0.0.1", REG_PORT))

    def run_loop(self):
        self.srv.active = True
        try:
            self.srv._work()
        except BaseException as ex:     # noqa
            self.loop_died = ex
            return False
        return True

    def replies(self, host):
        out = []
        s = self.clients[host]
        while s._of.dgrams:
            data, src = s.recvfrom(1500)
            out.append(brine.load(data))
        return out

    def request(self, host, value):
        self.send(host, brine.dump(value) if not isinstance(value, bytes) else value)
        ok = self.run_loop()
        return ok, self.replies(host)

    def registrations(self):
        return dict((k, dict(v)) for k, v in self.srv.services.items())


class Model(object):
    def __init__(self):
        self.db = {}          # NAME -> {addr: t}
        self.members = set()  # (NAME, addr) implied by the notification log

    def register(self, host, names, port, now):
        for n in names:
            self.db.setdefault(n.upper(), {})[(host, port)] = now

    def unregister(self, host, port):
        for n in list(self.db):
            self.db[n].pop((host, port), None)
            if not self.db[n]:
                del self.db[n]

    def query(self, name, now):
        name = name.upper()
        live = dict((a, t) for a, t in self.db.get(name, {}).items() if t >= now - T)
        if name in self.db:
            self.db[name] = live
            if not live:
                del self.db[name]
        return live


def apply_history(hist):
    """returns (violations, key, sys) after replaying hist on the real loop and the model"""
    sy = Sys()
    m = Model()
    viol = []
    for ev in hist:
        op = ev[0]
        now = S.sim_time.fallback
        nlog = len(sy.log)
        if op == "reg":
            _, h, p, al = ev
            ok, rep = sy.request(h, ("RPYC", "REGISTER", (ALIASES[al], p)))
            m.register(HOSTS[h][0], ALIASES[al], p, now)
            if not ok or rep != ["OK"]:
                viol.append(("register-not-acknowledged", "%r -> %r %r" % (ev, ok, rep)))
        elif op == "unreg":
            _, h, p = ev
            ok, rep = sy.request(h, ("RPYC", "UNREGISTER", (p,)))
            m.unregister(HOSTS[h][0], p)
            if not ok or rep != ["OK"]:
                viol.append(("unregister-not-acknowledged", "%r -> %r %r" % (ev, ok, rep)))
        elif op == "query":
            _, h, name = ev
            ok, rep = sy.request(h, ("RPYC", "QUERY", (name,)))
            live = m.query(name, now)
            if not ok or len(rep) != 1:
                viol.append(("query-not-answered", "%r -> %r %r" % (ev, ok, rep)))
            else:
                got = rep[0]
                want_set = set(live)
                if set(got) != want_set or len(got) != len(want_set):
                    kind = "stale-or-foreign-server-listed" if set(got) - want_set else "live-server-missing"
                    viol.append(("query-reply-wrong:%s" % kind, "history %r: got %r want %r" % (hist, got, sorted(want_set))))
                else:
                    ts = [live[a] for a in got]
                    if ts != sorted(ts):
                        viol.append(("query-reply-not-oldest-refresh-first", "history %r: got %r with refresh times %r" % (hist, got, ts)))
        elif op == "tick":
            S.sim_time.fallback += ev[1]
        if sy.loop_died is not None:
            viol.append(("main-loop-died:%s" % type(sy.loop_died).__name__, "history %r: %r" % (hist, sy.loop_died)))
            break
        # notification discipline
        for kind, name, addr in sy.log[nlog:]:
            if kind == "added":
                if (name, addr) in m.members:
                    viol.append(("notification:added-for-a-member", "history %r: %r" % (hist, (name, addr))))
                m.members.add((name, addr))
            else:
                if (name, addr) not in m.members:
                    viol.append(("notification:removed-for-a-non-member", "history %r: %r" % (hist, (name, addr))))
                m.members.discard((name, addr))
                # a removal is an ACTUAL change of membership only if the server unregistered or its refresh is older than
                # the pruning interval: a server that is registered under `name`, fresh, and not being unregistered stays
                t = m.db.get(name, {}).get(addr)
                if t is not None and t >= S.sim_time.fallback - T:
                    viol.append(("notification:removed-for-a-live-member", "history %r: %r removed while registered and refreshed %.2f s ago" % (
                        hist, (name, addr), S.sim_time.fallback - t)))
        if op == "query" and not viol:
            nm = ev[2].upper()
            implied = set(a for (n, a) in m.members if n == nm)
            if implied != set(live):
                viol.append(("notification-log-disagrees-with-query", "history %r: log implies %r, query answered %r" % (hist, sorted(implied), sorted(live))))
    now = S.sim_time.fallback
    # an entry older than the pruning interval is stale whatever its exact age (it is dropped at the next query of its name)
    def age(t):
        a = round(now - t, 3)
        return a if a <= T else "stale"
    key = (tuple(sorted((n, tuple(sorted(((a, age(t)) for a, t in d.items()), key=repr))) for n, d in sy.srv.services.items())),
           tuple(sorted(m.members)))
    return viol, key, sy


def events():
    evs = []
    for h in sorted(HOSTS):
        for p in (1001, 1002):
            for al in sorted(ALIASES):
                evs.append(("reg", h, p, al))
            evs.append(("unreg", h, p))
    for q in QUERIES:
        evs.append(("query", "A", q))
    evs.append(("tick", T / 2))
    evs.append(("tick", 3 * T / 4))      # with T/2: one registration of a server stale while a later one is still fresh
    evs.append(("tick", T + 1))
    return evs


def expand(hist, ev):
    env.silence_unraisable()
    viol, key, sy = apply_history(list(hist) + [ev])
    return key, events() if not viol else [], viol, None


# ------------------------------------------------------------------ part B
def malformed_datagrams(tier):
    out = []
    vals = V.atoms(big=False) + V.arity_values()[:12] + V.composites(1)[:120]
    good = ("RPYC", "QUERY", ("foo",))
    for v in vals:
        if not V.plain_immutable(v):
            continue
        try:
            out.append(("whole:%s" % V.short(v, 30), brine.dump(v)))
            out.append(("magic:%s" % V.short(v, 30), brine.dump((v, good[1], good[2]))))
            out.append(("command:%s" % V.short(v, 30), brine.dump((good[0], v, good[2]))))
            out.append(("args:%s" % V.short(v, 30), brine.dump((good[0], good[1], v))))
            out.append(("reg-names:%s" % V.short(v, 30), brine.dump((good[0], "REGISTER", (v, 77)))))
            out.append(("reg-port:%s" % V.short(v, 30), brine.dump((good[0], "REGISTER", (("zed",), v)))))
            out.append(("unreg-port:%s" % V.short(v, 30), brine.dump((good[0], "UNREGISTER", (v,)))))
            out.append(("query-name:%s" % V.short(v, 30), brine.dump((good[0], "QUERY", (v,)))))
        except Exception:
            pass
    out.append(("empty", b""))
    for b0 in range(256):
        out.append(("byte:%02x" % b0, bytes([b0])))
    step = 1 if tier == "thorough" else 7
    for b0 in range(0, 256, step):
        for b1 in range(0, 256, step):
            out.append(("bytes:%02x%02x" % (b0, b1), bytes([b0, b1])))
    for name, val in (("reg", ("RPYC", "REGISTER", (("foo",), 1001))), ("q", good), ("unreg", ("RPYC", "UNREGISTER", (1001,)))):
        d = brine.dump(val)
        for cut in range(len(d)):
            out.append(("trunc:%s:%d" % (name, cut), d[:cut]))
        out.append(("wrong-case-magic:%s" % name, brine.dump(("rpyc",) + val[1:])))
        out.append(("extra-args:%s" % name, brine.dump(val[:2] + (val[2] + (1, 2),))))
        out.append(("no-args:%s" % name, brine.dump(val[:2] + ((),))))
    for cmd in ("query", "Query", "REGISTER ", "work", "_work", "close", "start", "__init__", "on_service_added", "_recv", "", "cmd_query"):
        out.append(("command-name:%s" % cmd, brine.dump(("RPYC", cmd, ()))))
        out.append(("command-name+args:%s" % cmd, brine.dump(("RPYC", cmd, ("x", 1)))))
    return out


def check_malformed(idx, nchunks, tier):
    env.silence_unraisable()
    viol = []
    dgs = malformed_datagrams(tier)
    n = 0
    ocs = set()
    for i, (label, data) in enumerate(dgs):
        if i % nchunks != idx:
            continue
        n += 1
        sy = Sys()
        # a legitimate registration by host A that host B must not be able to disturb
        sy.request("A", ("RPYC", "REGISTER", (("foo",), 1001)))
        before = sy.registrations()
        nlog = len(sy.log)
        sy.send("B", data)
        ok = sy.run_loop()
        kind = label.split(":")[0]
        if not ok:
            viol.append(("main-loop-died:%s:field=%s" % (type(sy.loop_died).__name__, kind), "%s: %r" % (label, sy.loop_died)))
            continue
        after = sy.registrations()
        # whatever host B sends - even something that happens to decode as a valid request - may only add or remove
        # entries under B's own address; everybody else's registrations must be unchanged
        def foreign(d):
            return dict((n, dict((a, t) for a, t in e.items() if a[0] != HOSTS["B"][0])) for n, e in d.items()
                        if any(a[0] != HOSTS["B"][0] for a in e))
        if foreign(after) != foreign(before):
            viol.append(("foreign-registration-altered:field=%s" % kind, "%s: %r -> %r" % (label, before, after)))
        for k_, name, addr in sy.log[nlog:]:
            if addr[0] != HOSTS["B"][0]:
                viol.append(("notification-for-foreign-address:field=%s" % kind, "%s: %r" % (label, (k_, name, addr))))
        sy.replies("B")
        ok, rep = sy.request("A", ("RPYC", "QUERY", ("foo",)))
        ocs.add((kind, ok, len(rep)))
        if not ok or len(rep) != 1 or (HOSTS["A"][0], 1001) not in rep[0]:
            viol.append(("query-after-malformed-datagram-not-answered:field=%s" % kind, "%s: %r %r" % (label, ok, rep)))
        if len(viol) > 10:
            break
    return n, viol, ocs


# ------------------------------------------------------------------ part C: TCP registry under the scheduler
def tcp_scenario(order, choices=()):
    """clients in `order` (subset/permutation of silent, partial, good, good2).  returns violations"""
    import gc
    gc.disable()
    simos.reset_kernel()
    box = {}
    import logging
    lg = logging.getLogger("c18tcp")
    lg.disabled = True

    def main():
        s = S.current_sched()
        srv = registry.TCPRegistryServer(host="0.0.0.0", port=REG_PORT, pruning_timeout=T, logger=lg)
        box["srv"] = srv

        def run_srv():
            try:
                srv.start()
            except Exception as ex:    # noqa
                box["srv_exc"] = repr(ex)
        st = S.SimThread(target=run_srv, name="registry")
        st.start()
        socks = []
        results = {}

        def good(tag, port):
            c = registry.TCPRegistryClient("127.0.0.1", port=REG_PORT, timeout=5, logger=lg)
            t0 = S.sim_time.time()
            try:
                ok = c.register(("foo",), port)
                found = c.discover("foo")
            except Exception as ex:   # noqa
                results[tag] = ("exc", repr(ex))
                return
            results[tag] = (ok, tuple(found), S.sim_time.time() - t0)

        threads = []
        for i, kind in enumerate(order):
            if kind == "silent":
                k = simos.SimSocket()
                k.connect(("127.0.0.1", REG_PORT))
                socks.append(k)
            elif kind == "partial":
                k = simos.SimSocket()
                k.connect(("127.0.0.1", REG_PORT))
                k.send(brine.dump(("RPYC", "QUERY", ("foo",)))[:3])
                socks.append(k)
            elif kind == "garbage":
                k = simos.SimSocket()
                k.connect(("127.0.0.1", REG_PORT))
                k.send(b"\xff\xfe\x00garbage")
                socks.append(k)
            else:
                th = S.SimThread(target=good, args=(kind, 2000 + i), name=kind)
                th.start()
                threads.append(th)
            S.sim_time.sleep(0.01)
        for th in threads:
            th.join(200)
        box["results"] = results
        box["alive"] = st.is_alive()
        try:
            srv.close()
        except Exception:
            pass
        st.join(50)
        for k in socks:
            k.close()

    sch = S.Scheduler(choices, sync_points=False, io_points=False, horizon=2000, max_steps=200000)
    sch.run(main)
    viol = []
    if sch.outcome != "done":
        viol.append(("tcp:hang:%s" % sch.outcome, "order %r: %r" % (order, sch.deadlock_info)))
        return viol
    if "srv_exc" in box:
        viol.append(("tcp:main-loop-died", "order %r: %s" % (order, box["srv_exc"])))
    if not box.get("alive"):
        viol.append(("tcp:registry-thread-ended", "order %r" % (order,)))
    for tag, r in box["results"].items():
        if r[0] == "exc":
            viol.append(("tcp:good-client-failed", "order %r: %s %r" % (order, tag, r)))
        elif r[0] is not True or not any(a[1] == 2000 + list(order).index(tag) for a in r[1]):
            viol.append(("tcp:good-client-not-answered:%s" % ("blocked-by-" + "+".join(k for k in order if not k.startswith("good"))),
                         "order %r: %s observed %r" % (order, tag, r)))
    for tag in [k for k in order if k.startswith("good")]:
        if tag not in box["results"]:
            viol.append(("tcp:good-client-never-finished", "order %r: %s" % (order, tag)))
    return viol


def tcp_orders():
    kinds = ("silent", "partial", "garbage", "good", "good2")
    out = []
    for r in range(1, 5):
        for perm in itertools.permutations(kinds, r):
            if any(k.startswith("good") for k in perm):
                out.append(perm)
    return out


def check_tcp(idx, nchunks):
    env.silence_unraisable()
    viol = []
    n = 0
    for i, order in enumerate(tcp_orders()):
        if i % nchunks != idx:
            continue
        n += 1
        viol.extend(tcp_scenario(order))
        if len(viol) > 5:
            break
    return n, viol


def replay(rep):
    env.silence_unraisable()
    part = rep["part"]
    if part == "history":
        h = [tuple(e) for e in rep["history"]]
        a, b = apply_history(h)[0], apply_history(h)[0]
    elif part == "tcp":
        a, b = tcp_scenario(tuple(rep["order"])), tcp_scenario(tuple(rep["order"]))
    else:
        dg = dict(malformed_datagrams(rep.get("tier", "quick")))
        a = b = []
        for r in (0, 1):
            sy = Sys()
            sy.request("A", ("RPYC", "REGISTER", (("foo",), 1001)))
            sy.send("B", dg[rep["label"]])
            ok = sy.run_loop()
            v = [("main-loop-died", repr(sy.loop_died))] if not ok else []
            a, b = (v, b) if r == 0 else (a, v)
    if [x[0] for x in a] != [x[0] for x in b]:
        print("REPLAY-DIVERGENCE")
        return 2
    print("replayed -> %r" % (a[:3],))
    return 1 if a else 0


def main(tier, replay_obj=None):
    if replay_obj is not None:
        return replay(replay_obj)
    env.silence_unraisable()
    depth = 6 if tier == "quick" else 7
    res = runner.Result(PID, "model_checking", tier,
                        "A: explicit-state BFS (depth %d) over register/unregister/query/clock-advance histories (2 hosts x 2 ports x 2 alias "
                        "sets, 4 query names, advances of T/2 and T+1) replayed on the real UDPRegistryServer loop and compared step by step "
                        "with a reference dict model and the notification log; B: every malformed datagram of a generated set (grammar values as "
                        "whole datagram / magic / command / args / argument fields, all 1-byte and a grid of 2-byte strings, all truncations of "
                        "valid datagrams, odd command names) followed by a valid query; C: TCP registry on simulated sockets with silent / "
                        "partial / garbage clients and well-behaved clients in every order" % depth)
    known = runner.load_known()

    def unlisted(sig):
        return (PID, sig) not in known
    v0, k0, _ = apply_history([])
    r = bfs.bfs(expand, events(), depth, init_key=k0, stop=unlisted, chunksize=32, max_seconds=600 if tier == "quick" else 3000)
    res.states += r.states
    res.transitions += r.transitions
    res.evaluations += r.transitions
    res.traces += r.transitions
    res.distinct_count_extra += r.states
    res.parts["histories"] = r.as_dict()
    res.bounds["history_depth"] = depth
    for c in r.caps:
        if not c.startswith("depth="):
            res.caps.append(c)
    for s in r.samples[:2]:
        res.add_sample(s)
    seen_sig = set()
    for sig, text, hist in r.violations:
        if sig not in seen_sig:
            seen_sig.add(sig)
            res.violation(sig, text, {"part": "history", "history": [list(e) for e in hist]})
    nch = 16
    outs = runner.pmap(check_malformed, [(i, nch, tier) for i in range(nch)])
    ocs = set()
    nb = 0
    for n, viol, oc in outs:
        nb += n
        ocs |= oc
        for sig, text in viol:
            res.violation(sig, text, {"part": "malformed", "label": text.split(": ")[0]})
    res.evaluations += nb
    res.traces += nb
    res.parts["malformed"] = {"datagrams": nb, "outcome_classes": len(ocs)}
    for o in ocs:
        res.nontrivial(("mal", o))
    outs = runner.pmap(check_tcp, [(i, nch) for i in range(nch)])
    nt = 0
    for n, viol in outs:
        nt += n
        for sig, text in viol:
            import ast
            try:
                order = ast.literal_eval(text.split("order ")[1].split(":")[0])
            except Exception:
                order = ("silent", "good")
            res.violation(sig, text, {"part": "tcp", "order": list(order)})
    res.evaluations += nt
    res.traces += nt
    res.parts["tcp"] = {"orders": nt}
    res.add_sample({"tcp_order": ["silent", "good", "partial", "good2"]})
    res.assumptions = ["pruning is observed lazily (at the next query), so notifications for expiry are compared for consistency with the "
                       "query answers, not for their instant", "ties in refresh time may be listed in any order",
                       "malformed datagrams come from host B; host A's registration must survive all of them"]
    return res.finish()
