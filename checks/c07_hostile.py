"""C07 -- a hostile peer cannot step outside what the service exposes.

Explicit-state BFS over hostile message histories (depth 3 quick / 4 thorough) sent by a reference-codec raw
peer to a real Connection under the DEFAULT configuration.  Alphabet per state: every handler 1..20 applied to
every identifier in the peer's *pool* (ids harvested from replies on this connection, stale ids after a
release, ids of objects never sent, ids lent on ANOTHER connection of the same process, forged id-packs of
os/sys) with every name of a sensitive-name list, through boxing labels 3 and 4; structurally malformed
requests (unknown handlers, labels 0/5, wrong arities); non-request kinds with arbitrary sequence numbers;
crafted exception payloads (real modules' non-exception attributes, not-yet-imported modules, wrong shapes).
Monitors (oracle), evaluated after every message:
 (a) canary callables / properties the default policy denies by name: zero hits;
 (b) a request for a name the reference policy denies must not be answered with a result;
 (c) every object a local-reference label resolves to is in THIS connection's table;
 (d) pickle.dumps/loads counters stay zero; (e) no import: __import__ counter, audit events, sys.modules;
 (f) the service's observable state equals its snapshot; another connection of the process still works.
"""
import builtins
import os
import sys

from mc import env
rpyc = env.install_sim()
from mc import runner, rawpeer as RP, refcodec as R, bfs      # noqa: E402
import rpyc as _rpyc                                           # noqa: E402
from rpyc.core import protocol, netref                         # noqa: E402
from checks.c06_attrs import ref_decide                        # noqa: E402

PID = "C07"
HITS = []
MON = {"pickle": 0, "import": [], "foreign": []}


def canary(name):
    def f(*a, **k):
        HITS.append(name)
        return "CANARY:" + name
    f.__name__ = name
    return f


class Lent(object):
    """object the service hands out: one exposed method, the rest must stay out of reach"""

    def __init__(self):
        self.public_attr = "pub"
        self._private_attr = "priv"

    def exposed_fine(self):
        return "fine"

    danger = canary("Lent.danger")
    _hidden = canary("Lent._hidden")

    @property
    def token(self):
        HITS.append("Lent.token")
        return "TOKEN"

    def __eq__(self, other):
        return other == "same"

    def __hash__(self):
        return 99


class Svc(_rpyc.Service):
    def __init__(self):
        self.state = {"balance": 100}
        self.lent = Lent()
        self.never_sent = Lent()

    def exposed_ok(self):
        return self.lent

    def exposed_balance(self):
        return self.state["balance"]

    secret = canary("Svc.secret")
    _private = canary("Svc._private")

    def snapshot(self):
        return (dict(self.state), dict(self.lent.__dict__), dict(self.never_sent.__dict__))


class _PickleSpy(object):
    def __init__(self, real):
        self._real = real

    def dumps(self, *a, **k):
        MON["pickle"] += 1
        return self._real.dumps(*a, **k)

    def loads(self, *a, **k):
        MON["pickle"] += 1
        return self._real.loads(*a, **k)

    def __getattr__(self, n):
        return getattr(self._real, n)


_installed = [False]
_orig_import = builtins.__import__
_orig_unbox = protocol.Connection._unbox
_watch_import = [False]


# module names a payload can mention; importing one of them on the peer's say-so is the violation.  (The victim's own
# standard machinery - e.g. traceback formatting - may lazily import stdlib modules; that is not peer-controlled.)
WATCH_MODULES = ("os", "subprocess", "antigravity", "this", "checks.c07_hostile", "builtins", "rpyc.core.vinegar", "a", "sys")


def _spy_import(name, *a, **k):
    if _watch_import[0] and name in WATCH_MODULES:
        MON["import"].append(name)
    return _orig_import(name, *a, **k)


def _audit(event, args):
    if _watch_import[0] and event == "import" and str(args[0]) in WATCH_MODULES:
        MON["import"].append("audit:" + str(args[0]))


def _spy_unbox(self, package):
    r = _orig_unbox(self, package)
    try:
        label = package[0]
    except Exception:
        label = None
    if label == R.L_LOCAL_REF and _watch_import[0]:
        if not any(r is slot[0] for slot in self._local_objects._dict.values()):
            MON["foreign"].append(repr(package)[:80])
    return r


def install_monitors():
    if _installed[0]:
        return
    import pickle
    protocol.pickle = _PickleSpy(pickle)
    netref.pickle = _PickleSpy(pickle)
    builtins.__import__ = _spy_import
    sys.addaudithook(_audit)
    protocol.Connection._unbox = _spy_unbox
    _installed[0] = True


NAMES = ("exposed_fine", "fine", "danger", "_hidden", "token", "public_attr", "_private_attr", "secret", "_private", "ok",
         "__eq__", "__getattribute__", "__setattr__", "__class__", "__init__", "__dict__", "__globals__", "__subclasses__",
         "__reduce_ex__", "__call__", "state", "lent", "never_sent", "__hash__", "__repr__")
SAFE = protocol.DEFAULT_CONFIG["safe_attrs"]
DEFCFG = dict((k, protocol.DEFAULT_CONFIG[k]) for k in ("allow_safe_attrs", "allow_exposed_attrs", "allow_public_attrs",
                                                          "allow_all_attrs", "allow_getattr", "allow_setattr", "allow_delattr"))


class World(object):
    """the system under test: one victim connection + one other connection of the same process"""

    def __init__(self):
        install_monitors()
        del HITS[:]
        MON["pickle"] = 0
        MON["import"] = []
        MON["foreign"] = []
        self.svc = Svc()
        self.peer = RP.RawPeer(self.svc, {})
        self.other_svc = Svc()
        self.other = RP.RawPeer(self.other_svc, {})
        # the other connection legitimately received an object; its id must be useless on the victim
        k, a = self.other.request(3)
        self.other_root = a[1]
        k, a = self.other.request(8, RP.yours(self.other_root), RP.val("ok"), RP.val(()), RP.val(()))
        self.other_lent = a[1]
        self.pool = {}            # role -> id_pack (what the hostile peer knows)
        self.pool["unsent"] = ("checks.c07_hostile.Lent", id(Lent), id(self.svc.never_sent))
        self.pool["other-conn"] = self.other_lent
        self.pool["forged-os"] = ("os", id(type(os)), id(os))
        self.legit = set()        # id_packs the victim really lent to this peer
        self.lent_count = {}      # id_pack -> references lent and not yet handed back (the peer's own books)
        self.snap = self.svc.snapshot()
        self.ended = None
        self.peer.on_request = self.answer_nested
        # warm the victim's own lazy imports (traceback formatting etc.) before watching sys.modules
        self.other.request(4, RP.yours(self.other_root), RP.val("nope"))
        self.modules_before = set(sys.modules)
        _watch_import[0] = True

    strategy = None

    def answer_nested(self, peer, seq, args):
        """the victim asks the hostile peer something (class inspection, attribute/method of a forged object, release
        notice).  strategy None: refuse; 'ignore': never answer (the victim's wait times out); ('adaptive', target):
        answer whatever steers the victim towards the attribute `target`"""
        st = self.strategy
        if st == "ignore":
            return None
        if isinstance(st, tuple) and st[0] == "adaptive":
            target = st[1]
            try:
                h = args[0]
                boxed = args[1]
                items = boxed[1] if boxed[0] == R.L_TUPLE else ()
                name = items[1][1] if len(items) > 1 and items[1][0] == R.L_VALUE else None
            except Exception:
                h, name = None, None
            falsy = ("startswith", "endswith", "__contains__", "__eq__", "__ne__", "isidentifier")
            if h == 8:      # callattr
                if name in falsy:
                    return (R.REPLY, RP.val(False))
                return (R.REPLY, RP.val(target))
            if h == 4:      # getattr on my forged object: hand out a "bound method" of mine; its id encodes the name
                return (R.REPLY, (R.L_REMOTE_REF, ("builtins.method", 9000, 9100 + (1 if name in falsy else 2))))
            if h == 7:      # the victim calls one of those methods
                try:
                    mid = items[0][1][2]
                except Exception:
                    mid = 0
                return (R.REPLY, RP.val(False if mid == 9101 else target))
            if h == 11:
                return (R.REPLY, RP.val(False))
            if h == 12:
                return (R.REPLY, RP.val(1))
            if h in (9, 10):
                return (R.REPLY, RP.val(target))
            if h == 16:
                return (R.REPLY, RP.val(tuple((m, "d") for m in ("startswith", "__radd__", "__add__", "__hash__", "__eq__", "encode"))))
            return (R.REPLY, RP.val(None))
        return (R.EXCEPTION, (("builtins", "ValueError"), ("no",), (), "tb"))

    def role_of(self, idp):
        for r, v in self.pool.items():
            if v == idp:
                return r
        return None

    def harvest(self, boxed, how):
        """references in a reply become known (and legitimately lent) ids"""
        if not isinstance(boxed, tuple) or len(boxed) != 2:
            return
        lab, v = boxed
        if lab == R.L_REMOTE_REF and isinstance(v, tuple) and len(v) == 3:
            self.legit.add(v)
            self.lent_count[v] = self.lent_count.get(v, 0) + 1
            if self.role_of(v) == "stale":          # lent again after a release: live once more
                del self.pool["stale"]
            if self.role_of(v) is None and len(self.pool) < 9:
                self.pool[how] = v
        elif lab == R.L_TUPLE and isinstance(v, tuple):
            for it in v:
                self.harvest(it, how)

    def send(self, msg):
        """msg = (kind, seq, payload_args, meta).  returns violations"""
        kind, seq, args, meta = msg
        viol = []
        if self.ended:
            return viol
        p = self.peer
        del HITS[:]
        self.strategy = meta.get("strategy")
        p.send_payload((kind, seq, args))
        p.pump()
        resp = []
        while True:
            m = p.take()
            if m is None:
                break
            if m[0] == R.REQUEST:
                rep = self.answer_nested(p, m[1], m[2])
                if rep is not None:
                    p.send_payload((rep[0], m[1], rep[1]))
                p.pump()
                continue
            resp.append(m)
        self.ended = p.ended or ("closed" if p.conn.closed else None)
        # ---- monitors
        if HITS:
            viol.append(("canary-hit:%s" % HITS[0], "%r -> canaries %r" % (meta, HITS[:3])))
            del HITS[:]
        if MON["pickle"]:
            viol.append(("pickle-used", "%r" % (meta,)))
            MON["pickle"] = 0
        if MON["import"]:
            viol.append(("import-attempted:%s" % MON["import"][0], "%r" % (meta,)))
            MON["import"] = []
        newmods = set(sys.modules) - self.modules_before
        if newmods:
            viol.append(("module-imported:%s" % sorted(newmods)[0], "%r -> %r" % (meta, sorted(newmods)[:3])))
            self.modules_before |= newmods
        if MON["foreign"]:
            viol.append(("local-ref-resolved-outside-this-connection", "%r -> %r" % (meta, MON["foreign"][:2])))
            MON["foreign"] = []
        if self.svc.snapshot() != self.snap:
            viol.append(("service-state-changed", "%r: %r" % (meta, self.svc.snapshot())))
            self.snap = self.svc.snapshot()
        self.last_replied = False
        if kind == R.REQUEST:
            mine_resp = [m for m in resp if m[1] == seq and type(m[1]) is type(seq)]
            self.last_replied = any(m[0] == R.REPLY for m in mine_resp)
            if not self.ended and len(mine_resp) != 1:
                viol.append(("request-got-%d-responses" % len(mine_resp), "%r" % (meta,)))
            for m in mine_resp:
                if m[0] == R.REPLY:
                    denied = meta.get("denied")
                    if denied:
                        viol.append(("policy-bypass:%s:%s" % (meta.get("h"), meta.get("name")), "%r answered with %r" % (meta, m[2])))
                    idrole = meta.get("idrole")
                    if idrole in ("unsent", "other-conn", "forged-os", "stale") and meta.get("label") == 3:
                        viol.append(("foreign-or-stale-id-accepted:%s" % idrole, "%r answered with %r" % (meta, m[2])))
                    self.harvest(m[2], "ref:%s:%s" % (meta.get("h"), meta.get("name")))
                    if meta.get("h") == "del" and meta.get("label") == 3 and idrole and idrole.startswith("ref:"):
                        # one reference handed back; the id is stale once every lent reference is
                        idp = self.pool[idrole]
                        self.lent_count[idp] = self.lent_count.get(idp, 0) - 1
                        if self.lent_count[idp] <= 0:
                            self.pool.pop(idrole)
                            self.legit.discard(idp)
                            self.pool["stale"] = idp
        else:
            # replies / exceptions / unknown kinds from the peer must not produce responses
            if resp and not self.ended:
                viol.append(("non-request-frame-answered", "%r -> %r" % (meta, resp[:1])))
        # the rest of the process is unaffected
        k, a = self.other.request(1, RP.val("alive"))
        if (k, a) != (R.REPLY, RP.val("alive")):
            viol.append(("other-connection-affected", "%r: %r" % (meta, (k, a))))
        return viol

    def key(self):
        c = self.peer.conn
        tbl = []
        if not c.closed:
            for idp, slot in c._local_objects._dict.items():
                tbl.append((self.role_of(idp) or "?", slot[1]))
        return (self.ended, tuple(sorted(tbl)), tuple(sorted(self.pool)), tuple(sorted((self.role_of(i) or "?", self.lent_count.get(i, 0)) for i in self.legit)),
                len(c._proxy_cache._dict) if not c.closed else -1)

    def close(self):
        _watch_import[0] = False
        self.peer.close()
        self.other.close()


def class_of(role, world):
    """the Python class behind a pool role (for the reference policy)"""
    if role == "ref:getroot:None":
        return Svc
    return Lent


def denied_name(world, role, name, perm):
    """would the default policy deny `name` on the object behind `role`? (only for ids really lent here)"""
    cls = class_of(role, world)
    obj = world.svc if cls is Svc else world.svc.lent
    import inspect
    sentinel = object()
    # static lookup: the harness itself must not trip the canary properties
    has_name = inspect.getattr_static(obj, name, sentinel) is not sentinel
    has_twin = inspect.getattr_static(obj, "exposed_" + name, sentinel) is not sentinel
    if perm == "allow_setattr" or perm == "allow_delattr":
        return True
    want = ref_decide(DEFCFG, "exposed_", perm, name, has_name, has_twin)
    return "AttributeError" in want


def alphabet(world, seqbase, thorough):
    """every message the hostile peer may try in this state"""
    msgs = []
    V, T = RP.val, RP.tup
    seq = [seqbase]

    def add(kind, s, args, **meta):
        msgs.append((kind, s, args, meta))

    def fresh():
        seq[0] += 1
        return seq[0]

    add(R.REQUEST, fresh(), (3, V(())), h="getroot", name=None)
    add(R.REQUEST, fresh(), (1, V(("x",))), h="ping", name=None)
    # references of the peer's own whose TYPE NAME points into modules the victim has not imported: whatever the victim does to
    # make a proxy for them (it asks the peer what the class looks like - answered), it must not import anything
    for modname in ("colorsys.Color", "xml.dom.minidom.Node", "json.tool.main", "nosuchmodule_c07.X"):
        for strat in (("adaptive", "_private"), None):
            add(R.REQUEST, fresh(), (1, T(RP.mine((modname, 8101, 8102)))), h="ping", name="<ref of type %s>" % modname, strategy=strat)
            add(R.REQUEST, fresh(), (1, T(RP.mine((modname, 8103, 0)))), h="ping", name="<class ref %s>" % modname, strategy=strat)
    for role, idp in sorted(world.pool.items()):
        legit = idp in world.legit
        for label, boxf in ((3, RP.yours), (4, RP.mine)):
            if label == 4 and not thorough and role not in ("unsent", "forged-os"):
                continue
            me = boxf(idp)
            common = dict(idrole=role, label=label)
            for name in NAMES:
                dget = denied_name(world, role, name, "allow_getattr") if (legit and label == 3) else False
                add(R.REQUEST, fresh(), (4, T(me, V(name))), h="getattr", name=name, denied=dget, **common)
                add(R.REQUEST, fresh(), (8, T(me, V(name), V(()), V(()))), h="callattr", name=name, denied=dget, **common)
                add(R.REQUEST, fresh(), (6, T(me, V(name), V(1))), h="setattr", name=name, denied=(legit and label == 3), **common)
                add(R.REQUEST, fresh(), (5, T(me, V(name))), h="delattr", name=name, denied=(legit and label == 3), **common)
                dcmp = ("AttributeError" in ref_decide(DEFCFG, "exposed_", "allow_getattr", name, True, False)) if (legit and label == 3) else False
                add(R.REQUEST, fresh(), (11, T(me, V("same"), V(name))), h="cmp", name=name, denied=dcmp, **common)
            if legit and label == 3:
                # the attribute NAME itself sent as a reference to a forged text-like object of the peer, with an
                # adaptive peer answering the victim's questions about it
                for fake in (("builtins.str", 71, 72), ("enum.StrEnum", 73, 74), ("builtins.bytes", 75, 76)):
                    for target in ("_private", "secret", "_hidden", "token", "danger"):
                        for strat in (("adaptive", target), "ignore", None):
                            if strat != ("adaptive", target) and target != "_private":
                                continue
                            nm = RP.mine(fake)
                            add(R.REQUEST, fresh(), (4, T(me, nm)), h="getattr", name="<ref:%s>" % fake[0], denied=True, strategy=strat, **common)
                            add(R.REQUEST, fresh(), (8, T(me, nm, V(()), V(()))), h="callattr", name="<ref:%s>" % fake[0], denied=True, strategy=strat, **common)
                            add(R.REQUEST, fresh(), (6, T(me, nm, V(1))), h="setattr", name="<ref:%s>" % fake[0], denied=True, strategy=strat, **common)
            add(R.REQUEST, fresh(), (7, T(me, V(()), V(()))), h="call", name=None, **common)
            for h, nm in ((9, "repr"), (10, "str"), (12, "hash"), (13, "dir")):
                add(R.REQUEST, fresh(), (h, T(me)), h=nm, name=None, **common)
            add(R.REQUEST, fresh(), (14, T(me, V(2))), h="pickle", name=None, denied=(legit and label == 3), **common)
            add(R.REQUEST, fresh(), (17, T(me, V(2))), h="buffiter", name=None, **common)
            add(R.REQUEST, fresh(), (19, T(me, V(None))), h="ctxexit", name="__exit__", **common)
            add(R.REQUEST, fresh(), (18, T(me, V("_hidden"), V("danger"), V(0), V(1), V(()))), h="oldslicing", name="_hidden",
                denied=(legit and label == 3), **common)
            add(R.REQUEST, fresh(), (20, T(me, V(idp))), h="instancecheck", name=None, **common)
            add(R.REQUEST, fresh(), (15, T(me, V(1))), h="del", name=None, **common)
        add(R.REQUEST, fresh(), (16, V((idp,))), h="inspect", name=None, idrole=role, label=1)
    # structurally malformed requests
    for hnd in (0, 21, 2 ** 40, "getattr", None, -1):
        add(R.REQUEST, fresh(), (hnd, V(("x",))), h="bad-handler:%r" % (hnd,), name=None)
    for lab in (0, 5, "3", None):
        add(R.REQUEST, fresh(), (4, (lab, ("a", 1, 2))), h="bad-label:%r" % (lab,), name=None)
        add(R.REQUEST, fresh(), (4, T((lab, ("a", 1, 2)), V("x"))), h="bad-inner-label:%r" % (lab,), name=None)
    for bad in (5, None, "abc", (1,), (1, 2, 3), ()):
        add(R.REQUEST, fresh(), bad, h="bad-args:%r" % (bad,), name=None)
    # odd sequence numbers on an otherwise valid request
    for s in (-1, 2 ** 70, "seq", None, seqbase + 1):
        add(R.REQUEST, s, (1, V(("x",))), h="odd-seq:%r" % (s,), name=None)
    # frames that are not requests
    for kind in (R.REPLY, R.EXCEPTION, 0, 4, "x", None):
        for s in (0, 1, seqbase, -1):
            if kind == R.EXCEPTION:
                continue
            add(kind, s, V("stray"), h="kind:%r" % (kind,), name=None)
    # crafted exception payloads
    payloads = [
        (("os", "system"), ("echo pwned",), (), "tb"), (("builtins", "eval"), ("1+1",), (), "tb"),
        (("subprocess", "Popen"), (("true",),), (), "tb"), (("antigravity", "fly"), (), (), "tb"),
        (("this", "s"), (), (), "tb"), (("builtins", "ValueError"), ("ok",), (("args", 5), ("__class__", 1), ("_remote_tb", 7)), "tb"),
        (("builtins", "SystemExit"), (0,), (), "tb"), (("builtins", "KeyboardInterrupt"), (), (), "tb"),
        (("checks.c07_hostile", "Svc"), (), (), "tb"), (("builtins", "object"), (), (), "tb"),
        (("builtins", "type"), ("X", (), ()), (), "tb"), "string-exception", 1, 2, None, (), (1, 2, 3, 4), (("a", "b"),),
        (("builtins", 5), (), (), "tb"), ((5, "x"), (), (), "tb"), (("builtins", "ValueError"), 5, (), "tb"),
        (("builtins", "ValueError"), (), 5, "tb"), (("builtins", "ValueError"), (), ((1, 2),), "tb"),
        (("builtins", "ValueError"), (), (), 5), (("rpyc.core.vinegar", "GenericException"), ("x",), (), "tb"),
        (("builtins", "BaseExceptionGroup"), ("m", ()), (), "tb"),
    ]
    for i, pl in enumerate(payloads):
        add(R.EXCEPTION, 0, pl, h="exc-payload#%d" % i, name=None)
    return msgs, seq[0]


def run_history(hist_idx, thorough, probe_all=True):
    """hist_idx: indices into the (state-dependent) alphabets along the path.  Returns (key, n alphabet, violations)"""
    w = World()
    viol = []
    seqbase = 5000
    path = []
    for i in hist_idx:
        msgs, seqbase = alphabet(w, seqbase, thorough)
        m = msgs[i]
        path.append(m[3])
        v = w.send(m)
        viol.extend(("%s" % s, "path %r: %s" % ([p.get("h") for p in path], t)) for s, t in v)
    key = w.key()
    msgs, _ = alphabet(w, seqbase, thorough)
    n = 0 if w.ended else len(msgs)
    w.close()
    return key, n, viol


def expand(hist, ev):
    env.silence_unraisable()
    key, n, viol = run_history(list(hist) + [ev], THOROUGH[0])
    return key, list(range(n)), viol, None


THOROUGH = [False]


def _meta_key(meta):
    return tuple(sorted((k, repr(v)) for k, v in meta.items() if k != "denied"))


def pair_row(base, i):
    """hidden-state pass: the BFS merges states by an abstraction of the victim's tables, so a message that changes
    nothing visible is never followed up.  Here every request m1 that was ANSWERED is followed by every message m2 that
    shares its name or its target id (the plausible keys of any memo inside the victim); the usual monitors judge m2."""
    env.silence_unraisable()
    thorough = THOROUGH[0]
    w = World()
    seqbase = 5000
    path = []
    for k in list(base) + [i]:
        msgs, seqbase = alphabet(w, seqbase, thorough)
        m = msgs[k]
        path.append(m[3])
        w.send(m)
    m1 = path[-1]
    replied = w.last_replied
    msgs2, _ = alphabet(w, seqbase, thorough)
    ended = w.ended
    w.close()
    if not replied or ended or m1.get("label") != 3:
        return 0, []
    related = [j for j, mm in enumerate(msgs2) if mm[0] == R.REQUEST and j != i and (
        (m1.get("name") is not None and mm[3].get("name") == m1.get("name")) or
        (m1.get("idrole") is not None and mm[3].get("idrole") == m1.get("idrole") and mm[3].get("label") == 3))]
    viol = []
    for j in related:
        key, n2, v = run_history(list(base) + [i, j], thorough)
        for sig, text in v:
            viol.append(("after-an-answered-request:" + sig, text, list(base) + [i, j]))
        if len(viol) > 6:
            break
    return len(related), viol


def pair_bases(thorough):
    """base histories: right after getroot, and after an object was lent (callattr ok)"""
    w = World()
    msgs, sb = alphabet(w, 5000, thorough)
    w.send(msgs[0])
    msgs, sb = alphabet(w, sb, thorough)
    idx = [k for k, mm in enumerate(msgs) if mm[3].get("h") == "callattr" and mm[3].get("name") == "ok" and mm[3].get("label") == 3
           and str(mm[3].get("idrole", "")).startswith("ref:getroot") and mm[3].get("strategy") is None]
    n0 = len(msgs)
    w.send(msgs[idx[0]])
    msgs, sb = alphabet(w, sb, thorough)
    n1 = len(msgs)
    w.close()
    return [((0,), n0), ((0, idx[0]), n1)]


def expand_state(hist):
    """all transitions out of one state in one go (rebuild once per transition, same worker)"""
    env.silence_unraisable()
    out = []
    key0, n, v0 = run_history(list(hist), THOROUGH[0])
    for i in range(n):
        key, n2, viol = run_history(list(hist) + [i], THOROUGH[0])
        out.append((i, key, n2, viol))
    return out


def replay(rep):
    env.silence_unraisable()
    THOROUGH[0] = rep.get("tier") == "thorough"
    a = run_history(rep["history"], THOROUGH[0])
    b = run_history(rep["history"], THOROUGH[0])
    if [x[0] for x in a[2]] != [x[0] for x in b[2]] or a[0] != b[0]:
        print("REPLAY-DIVERGENCE")
        return 2
    print("replayed %r -> %r" % (rep["history"], a[2][:3]))
    return 1 if a[2] else 0


def main(tier, replay_obj=None):
    if replay_obj is not None:
        return replay(replay_obj)
    env.silence_unraisable()
    THOROUGH[0] = tier == "thorough"
    depth = 3 if tier == "quick" else 4
    res = runner.Result(PID, "model_checking", tier,
                        "explicit-state BFS over hostile message histories (depth %d) from a raw peer against a real default-configuration "
                        "Connection: per state, every handler x every id in the peer's pool (harvested, stale, never-sent, other-connection, "
                        "forged) x %d names x labels 3/4, malformed requests, non-request kinds, %d crafted exception payloads; canary, "
                        "policy, table-membership, pickle, import and state monitors after every message; states de-duplicated by "
                        "(ended, table by role, pool roles, proxy-cache size)" % (depth, len(NAMES), 26))
    seen = {}
    k0, n0, v0 = run_history([], THOROUGH[0])
    seen[k0] = ()
    frontier = [()]
    trans = 0
    viols = list(v0)
    vhist = {}
    for d in range(depth):
        outs = runner.pmap(expand_state, [(h,) for h in frontier], chunksize=1)
        nxt = []
        for h, lst in zip(frontier, outs):
            for i, key, n2, viol in lst:
                trans += 1
                for sig, text in viol:
                    if sig not in vhist:
                        vhist[sig] = (text, list(h) + [i])
                if key not in seen:
                    seen[key] = h + (i,)
                    if n2:
                        nxt.append(h + (i,))
        res.parts["level%d" % (d + 1)] = {"states_expanded": len(frontier), "transitions_so_far": trans, "states": len(seen)}
        frontier = nxt
        if vhist:
            break
    if not vhist:
        npairs = 0
        for base, n in pair_bases(THOROUGH[0]):
            outs = runner.pmap(pair_row, [(base, i) for i in range(n)], chunksize=4)
            for cnt, viol in outs:
                npairs += cnt
                for sig, text, h in viol:
                    if sig not in vhist:
                        vhist[sig] = (text, h)
        res.parts["answered-request-then-related-message"] = {"pairs": npairs}
        trans += npairs
    res.states = len(seen)
    res.transitions = trans
    res.evaluations = trans
    res.traces = trans
    res.distinct_count_extra = len(seen)
    for sig, (text, h) in sorted(vhist.items()):
        res.violation(sig, text, {"history": h})
    res.add_sample({"history": list(list(seen.values())[-1]), "note": "indices into the state-dependent alphabets"})
    res.add_sample({"message": "getattr(label 3 'other-conn' id, '__dict__')"})
    res.info["alphabet_initial_state"] = n0
    res.bounds["depth"] = depth
    res.assumptions = ["special methods invoked by dedicated handlers by design (__dir__, __hash__, __repr__, __str__, __call__, iteration via "
                       "buffiter, __instancecheck__) are not canaries", "state de-duplication key abstracts the table by role and count; "
                       "pool capped at 9 ids", "quick tier uses label 4 only for never-sent and forged ids"]
    return res.finish()
