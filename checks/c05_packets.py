"""C05 -- packets arrive whole, in order and unaltered however the transport fragments.

Real Channel over real SocketStream (and PipeStream) over scripted endpoints (mc/fragio.py).  The sender
writes a packet sequence into a byte FIFO, the receiver reads it back.
 * deviation-bounded enumeration: every execution with <= k non-default transport answers
   (short send/recv of 1 byte / half / all-but-one, socket.timeout, EAGAIN) placed at every call index;
 * fault enumeration: EOF and hard errors at every byte offset of the stream on the read side (small streams:
   every offset; large packets: header bytes, chunk boundaries +-1, trailer) and after every partial count on
   the write side.
Oracle: received list == sent list (bytes-exact, in order); with a cut: packets wholly before the cut are
received intact, the next recv/send raises EOFError, the stream reports closed, nothing shortened, padded or
merged is ever returned.
Sender and receiver are decoupled by the FIFO, so interleaving them can only change how many bytes are available
at each recv - exactly the fragmentation choice enumerated here.
"""
import os as _os

from mc import env
rpyc = env.import_rpyc()
from mc import fragio as F, runner                  # noqa: E402
from rpyc.core.channel import Channel               # noqa: E402
from rpyc.core import stream as rstream             # noqa: E402
from rpyc.core.stream import SocketStream, PipeStream   # noqa: E402

PID = "C05"
SIZES = (0, 1, 2, 2999, 3000, 3001, 63993, 63994, 63995, 64000, 64001, 128001, 200000)
SMALL = (0, 1, 2, 7)


def payload(n, kind):
    if kind == "zeros":
        return b"\x00" * n
    if kind == "newlines":
        return b"\n" * n            # the frame terminator's own byte, as payload
    if kind == "newline-tail":
        return (payload(n, "random")[:max(0, n - 3)] + b"\n\n\n")[:n]
    out = bytearray()
    x = 987654321
    while len(out) < n:
        x = (x * 6364136223846793005 + 1442695040888963407) & 0xffffffffffffffff
        out += x.to_bytes(8, "big")
    return bytes(out[:n])


_fake_os = F.FakeOS(_os)


def make_pair(kind, chooser_w, chooser_r, cut):
    """(writer stream, reader stream, wire)"""
    wire = F.Wire()
    dead = F.Wire()
    cw = cut if cut and cut[0] == "write" else None
    cr = cut if cut and cut[0] == "read" else None
    if kind == "socket":
        ws = F.FragSocket(dead, wire, chooser_w, cw)
        rs = F.FragSocket(wire, dead, chooser_r, cr)
        return SocketStream(ws), SocketStream(rs), wire, ws, rs
    # pipes: os.read/os.write on fake descriptors
    rstream.os = _fake_os
    rstream.poll = F.FakePoll          # nothing may wait on a real descriptor that happens to carry a fake one's number
    menu = ("full", "one", "half", "allbutone")
    ws = F.FragSocket(dead, wire, chooser_w, cw, read_menu=menu)
    rs = F.FragSocket(wire, dead, chooser_r, cr, read_menu=menu)
    _fake_os.socks = {11: rs, 12: ws, 13: rs, 14: ws}
    wstream = PipeStream(F.FakeFile(13), F.FakeFile(12))
    rstream_ = PipeStream(F.FakeFile(11), F.FakeFile(14))
    return wstream, rstream_, wire, ws, rs


def transfer(kind, packets, comp_w, comp_r, chooser, cut=None):
    """returns observation dict"""
    wst, rst, wire, ws, rs = make_pair(kind, chooser, chooser, cut)
    cw, cr = Channel(wst, compress=comp_w), Channel(rst, compress=comp_r)
    obs = {"sent": 0, "send_exc": None, "recv": [], "recv_exc": None, "w_closed": None, "r_closed": None}
    for p in packets:
        try:
            cw.send(p)
            obs["sent"] += 1
        except EOFError as ex:
            obs["send_exc"] = "EOFError"
            break
        except Exception as ex:       # noqa
            obs["send_exc"] = type(ex).__name__
            break
    obs["w_closed"] = wst.closed
    wire.eof = True
    for _ in range(len(packets) + 1):
        try:
            obs["recv"].append(cr.recv())
        except EOFError:
            obs["recv_exc"] = "EOFError"
            break
        except Exception as ex:       # noqa
            obs["recv_exc"] = type(ex).__name__
            break
    obs["r_closed"] = rst.closed
    obs["wire_len"] = len(wire.data)
    obs["w_eagain"] = any(c[0] == "send" and c[2] == "EAGAIN" for c in ws.calls)
    return obs


def judge(packets, obs, cut, wire_total=None):
    """violations for one execution"""
    v = []
    got = obs["recv"]
    if cut is None and obs.get("w_eagain"):
        # the writer's descriptor answered "would block" once: a failure of that write, judged like any other
        cut = ("write", None, "EAGAIN")
    if cut is None:
        if obs["send_exc"]:
            v.append(("send-failed-without-fault:%s" % obs["send_exc"], ""))
        if got != list(packets):
            what = "count" if len(got) != len(packets) else "content"
            v.append(("received-differs-from-sent:%s" % what, "sent sizes %r got sizes %r" % ([len(p) for p in packets], [len(g) for g in got])))
        if obs["recv_exc"] != "EOFError":
            v.append(("no-EOFError-at-end-of-stream:%s" % obs["recv_exc"], ""))
        elif not obs["r_closed"]:
            v.append(("stream-not-closed-after-EOF", ""))
        return v
    side = cut[0]
    # whatever was received must be a prefix of what was sent: never shortened, padded or merged
    if got != list(packets[:len(got)]):
        v.append(("corrupted-packet-delivered-after-%s-fault" % side, "cut %r: sent sizes %r got sizes %r" % (cut, [len(p) for p in packets], [len(g) for g in got])))
    if side == "write":
        if obs["sent"] == len(packets) and obs["send_exc"] is None:
            # the writer reported every packet sent (the cut lay beyond the data, or the failure was absorbed): then every
            # packet must have arrived
            if got != list(packets):
                v.append(("writer-reported-success-but-receiver-lacks-data", "cut %r: sent sizes %r got sizes %r" % (
                    cut, [len(p) for p in packets], [len(g) for g in got])))
        else:
            if obs["send_exc"] != "EOFError":
                v.append(("writer-failure-not-EOFError:%s" % obs["send_exc"], "cut %r" % (cut,)))
            if not obs["w_closed"]:
                v.append(("writer-stream-not-closed-after-failure", "cut %r" % (cut,)))
        if obs["recv_exc"] != "EOFError":
            v.append(("reader-did-not-see-EOFError-after-writer-failure:%s" % obs["recv_exc"], "cut %r" % (cut,)))
    else:
        if obs["recv_exc"] != "EOFError":
            v.append(("reader-failure-not-EOFError:%s" % obs["recv_exc"], "cut %r" % (cut,)))
        if not obs["r_closed"]:
            v.append(("reader-stream-not-closed-after-failure", "cut %r" % (cut,)))
    return v


def frame_len(p, comp):
    import zlib
    if comp and len(p) > 3000:
        return 5 + len(zlib.compress(p, 1)) + 1
    return 5 + len(p) + 1


def explore_case(kind, packets, comp_w, comp_r, bound, max_execs):
    viol = []
    outcomes = set()

    def run(ch):
        obs = transfer(kind, packets, comp_w, comp_r, ch)
        return obs

    def on_result(ch, obs):
        for sig, text in judge(packets, obs, None):
            if len(viol) < 3:
                viol.append((sig, "%s sizes=%r compress=%s/%s choices=%r %s" % (kind, [len(p) for p in packets], comp_w, comp_r,
                                                                                 [c for _, c, _ in ch.trace if c], text),
                             [c for _, c, _ in ch.trace]))
        outcomes.add(tuple((i, c) for i, (_, c, t) in enumerate(ch.trace) if c))

    n, _, capped = F.explore(run, bound, max_execs=max_execs, on_result=on_result)
    return n, viol, len(outcomes), capped


def cut_offsets(total, packets, comp_w):
    if total <= 4096:
        return list(range(0, total + 1))
    offs = set()
    pos = 0
    for p in packets:
        fl = frame_len(p, comp_w)
        for d in (0, 1, 2, 3, 4, 5, 6):
            offs.add(pos + d)
        for b in (63999, 64000, 64001, 127999, 128000, 128001):
            if b < fl:
                offs.add(pos + b)
        for d in (-2, -1, 0):
            offs.add(pos + fl + d)
        pos += fl
    return sorted(o for o in offs if 0 <= o <= total)


def fault_case(kind, packets, comp_w, comp_r):
    viol = []
    n = 0
    total = sum(frame_len(p, comp_w) for p in packets)
    kinds_r = ("eof", "ECONNRESET") if kind == "socket" else ("eof", "EIO")
    kinds_w = ("EPIPE", "ECONNRESET", "EBADF") if kind == "socket" else ("EPIPE", "EIO")
    for off in cut_offsets(total, packets, comp_w):
        for fk in kinds_r:
            n += 1
            obs = transfer(kind, packets, comp_w, comp_r, None, ("read", off, fk))
            whole = 0
            pos = 0
            for p in packets:
                pos += frame_len(p, comp_w)
                if pos <= off:
                    whole += 1
            v = judge(packets, obs, ("read", off, fk))
            if off < total and len(obs["recv"]) != whole:
                v.append(("packets-before-the-cut-not-all-delivered", "cut at %d of %d: %d whole packets precede it, got %d" % (off, total, whole, len(obs["recv"]))))
            for sig, text in v:
                if len(viol) < 3:
                    viol.append((sig, "%s sizes=%r compress=%s/%s %s" % (kind, [len(p) for p in packets], comp_w, comp_r, text), ("read", off, fk)))
        for fk in kinds_w:
            n += 1
            obs = transfer(kind, packets, comp_w, comp_r, None, ("write", off, fk))
            for sig, text in judge(packets, obs, ("write", off, fk)):
                if len(viol) < 3:
                    viol.append((sig, "%s sizes=%r compress=%s/%s %s" % (kind, [len(p) for p in packets], comp_w, comp_r, text), ("write", off, fk)))
    return n, viol


def cases(tier):
    out = []
    for kind in ("socket", "pipe"):
        for size in SIZES:
            for content in ("zeros", "random"):
                for cw in (True, False):
                    for cr in (True, False):
                        out.append((kind, (size,), content, cw, cr))
        # sequences of 2-3 packets (small, and around the thresholds)
        seqs = [(0, 0), (1, 0, 2), (7, 7, 7), (2, 3001, 1), (3001, 3000), (64000, 1), (1, 63995, 2)]
        if tier == "thorough":
            seqs += [(63994, 63995), (128001, 0, 64001), (200000, 200000)]
        for s in seqs:
            for cw in (True, False):
                out.append((kind, s, "zeros", cw, not cw))
                out.append((kind, s, "random", cw, cw))
        # payloads that consist of / end in the terminator byte
        for s in ((1,), (5,), (2, 3, 1), (3001,), (64000, 1)):
            for content in ("newlines", "newline-tail"):
                for cw in (True, False):
                    out.append((kind, s, content, cw, cw))
    return out


def run_case(case, bound, max_execs, do_faults):
    kind, sizes, content, cw, cr = case
    packets = tuple(payload(s, content) for s in sizes)
    n, viol, oc, capped = explore_case(kind, packets, cw, cr, bound, max_execs)
    nf = 0
    if do_faults:
        nf, v2 = fault_case(kind, packets, cw, cr)
        viol.extend(v2)
    return n, nf, viol, oc, capped


def replay(rep):
    case = rep["case"]
    kind, sizes, content, cw, cr = case[0], tuple(case[1]), case[2], case[3], case[4]
    packets = tuple(payload(s, content) for s in sizes)
    outs = []
    for _ in range(2):
        if rep.get("cut"):
            cut = tuple(rep["cut"])
            obs = transfer(kind, packets, cw, cr, None, cut)
            outs.append([x[0] for x in judge(packets, obs, cut)] + [len(obs["recv"])])
        else:
            obs = transfer(kind, packets, cw, cr, F.Chooser(rep["choices"]))
            outs.append([x[0] for x in judge(packets, obs, None)])
    if outs[0] != outs[1]:
        print("REPLAY-DIVERGENCE", outs)
        return 2
    print("replayed %r -> %r" % (rep, outs[0]))
    return 1 if [x for x in outs[0] if isinstance(x, str)] else 0


def main(tier, replay_obj=None):
    if replay_obj is not None:
        return replay(replay_obj)
    bound = 2 if tier == "quick" else 3
    res = runner.Result(PID, "fault_enumeration", tier,
                        "for every (stream kind, packet sequence, content, sender compression, receiver compression): all executions with <= %d "
                        "non-default transport answers {1 byte, half, all-but-one, timeout, EAGAIN} at every call index, and EOF / hard error "
                        "at every byte offset (small streams) or at header/chunk-boundary/trailer offsets (large packets) on the read side and "
                        "after every partial count on the write side; distinct = distinct non-default answer patterns" % bound)
    cs = cases(tier)
    cap = 4000 if tier == "quick" else 60000
    outs = runner.pmap(run_case, [(c, bound, cap, True) for c in cs], chunksize=2)
    for c, (n, nf, viol, oc, capped) in zip(cs, outs):
        res.evaluations += n + nf
        res.distinct_count_extra += oc
        if capped:
            res.caps.append("%r: max_execs=%d" % (c[:2], cap))
        for sig, text, how in viol:
            rep = {"case": [c[0], list(c[1]), c[2], c[3], c[4]]}
            if how and how[0] in ("read", "write"):
                rep["cut"] = list(how)
            else:
                rep["choices"] = list(how)
            res.violation(sig, text, rep)
    res.parts["cases"] = {"cases": len(cs), "deviation_bound": bound}
    res.bounds["deviations"] = bound
    res.add_sample({"case": ["socket", [63995], "random", True, False], "choices": [0, 2, 0, 5]})
    res.add_sample({"case": ["pipe", [1, 63995, 2], "zeros", False, True], "cut": ["read", 64001, "eof"]})
    res.assumptions = ["the transport is a reliable byte FIFO; its only freedom is how many bytes each call moves and which transient "
                       "errors it reports", "at most two consecutive transient errors per call (a third would be an unbounded spin)"]
    return res.finish()
