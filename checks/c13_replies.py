"""C13 / C14 -- threads sharing a connection: replies never cross / duplicate / get lost (C13);
a waiter returns as soon as its reply has been processed by any thread (C14).

One real Connection over a SimStream; 2-3 requester threads each issue sync_request(PING, token);
optional real BgServingThread; the peer is a reference-codec raw peer acting as an *environment*
thread: whenever it is scheduled it takes the frames that arrived and answers ONE outstanding request,
chosen exhaustively (any reply order).  All interleavings at line granularity inside serve / send /
correlate / publish code are explored (state cache; unbounded for the small configurations,
preemption-bounded otherwise).
"""
import gc

from mc import env
rpyc = env.install_sim()
from mc import sched as S, simnet, trace, canon, explore, runner, refcodec as R   # noqa: E402
from rpyc.core import consts                                                       # noqa: E402
from rpyc.core.protocol import Connection                                          # noqa: E402
from rpyc.core.channel import Channel                                              # noqa: E402
from rpyc.core.service import VoidService                                          # noqa: E402
from rpyc.core.async_ import AsyncResult, AsyncResultTimeout                       # noqa: E402
from rpyc.utils.helpers import BgServingThread                                     # noqa: E402
from rpyc.lib import Timeout                                                       # noqa: E402

_orig = dict(dispatch=Connection._dispatch, async_request=Connection.async_request,
             ar_call=AsyncResult.__call__, serve=Connection.serve)
MON = [None]
POR_AT = ("stream.poll",)


class Monitor(object):
    def __init__(self, stream, conn=None):
        self.stream = stream
        self.conn = conn
        self.dispatched = {}     # payload bytes -> count
        self.requests = {}       # lthread id -> AsyncResult of the request in progress
        self.ready_step = {}     # id(AsyncResult) -> scheduler step at which it became ready
        self.last_check = {}     # (lthread id, id(AsyncResult)) -> (step, value) of that thread's last read of _is_ready
        self.stalls = []         # C14 violations (sig, text)
        self.lost = []           # C13 lost wake-ups
        self.keep = []

    def _state(self):
        return (tuple(sorted(self.dispatched.items())), len(self.stalls), len(self.lost))

    def on_clock(self, s, old, new):
        for lt in s.threads:
            res = self.requests.get(lt.id)
            if res is None or lt.state != "blocked":
                continue
            if _is_ready_raw(res):
                rs = self.ready_step.get(id(res), -1)
                # what did the waiter itself last read from its result's ready flag?  False = it is waiting on
                # the strength of a check made before the reply was processed (the notify-before-dispatch race);
                # True = it went on waiting although it had seen the result ready (a different defect)
                last = self.last_check.get((lt.id, id(res)))
                when = "stale-readiness-check" if (last is None or last[1] is False) else "ready-was-observed"
                sig = "stall:waiter-blocked-in=%s:%s" % (lt.block_kind, when)
                woke = getattr(lt, "wakes", {}).get("cond.wait", -1)
                if last is not None and woke > last[0]:
                    # it slept on the condition, was woken, and went on to wait again WITHOUT looking at its result
                    sig += ":woken-and-did-not-look"
                if lt.block_kind != "stream.poll.wait":
                    # waiting for the receive lock: who holds it?  (a waiter parked behind another stalled
                    # waiter is a cascade of the same defect; parked while the lock is free is a lost notification)
                    own = self.conn._recvlock.owner
                    if own is None:
                        sig += ":recvlock-free"
                    else:
                        r2 = self.requests.get(own.id)
                        if r2 is not None and _is_ready_raw(r2) and own.state == "blocked" and own.block_kind == "stream.poll.wait":
                            sig += ":recvlock-held-by-stalled-waiter"
                        else:
                            sig += ":recvlock-held-by-%s" % (own.block_kind if own.state == "blocked" else own.state)
                self.stalls.append((sig, "virtual clock advanced %.3f -> %.3f while %s's reply was already processed "
                                    "(result ready at step %d) and the waiter was still blocked in %s since step %d" % (
                                        old, new, lt.name, rs, lt.block_kind, lt.block_step)))
            elif self.stream.inbox and not _is_ready_raw(res):
                self.lost.append(("lost-wakeup:waiter-blocked-in=%s" % lt.block_kind,
                                  "clock advanced %.3f -> %.3f with an undelivered frame in the inbox while %s (reply "
                                  "outstanding) sleeps in %s" % (old, new, lt.name, lt.block_kind)))


_md_is_ready = AsyncResult.__dict__["_is_ready"]


def _is_ready_raw(res):
    return _md_is_ready.__get__(res, AsyncResult)


class _ReadyProbe(object):
    """data descriptor standing in for the _is_ready slot: records which thread read which value"""

    def __get__(self, obj, cls):
        if obj is None:
            return self
        v = _md_is_ready.__get__(obj, cls)
        m = MON[0]
        if m is not None:
            lt = S.current_lthread()
            # reads made by the harness itself (state keys are computed inside the scheduler) do not count
            if lt is not None and not lt.in_sched:
                m.last_check[(lt.id, id(obj))] = (lt.sched.steps, v)
        return v

    def __set__(self, obj, v):
        _md_is_ready.__set__(obj, v)


def _w_dispatch(self, data):
    m = MON[0]
    if m is not None:
        m.dispatched[data] = m.dispatched.get(data, 0) + 1
    return _orig["dispatch"](self, data)


def _w_async_request(self, handler, *args, **kw):
    res = _orig["async_request"](self, handler, *args, **kw)
    m = MON[0]
    lt = S.current_lthread()
    if m is not None and lt is not None:
        m.requests[lt.id] = res
        m.keep.append(res)
    return res


def _w_serve(self, timeout=1, wait_for_lock=True):
    lt = S.current_lthread()
    if lt is not None:
        lt.serve_entry_step = lt.sched.steps
    return _orig["serve"](self, timeout, wait_for_lock)


def _w_ar_call(self, is_exc, obj):
    r = _orig["ar_call"](self, is_exc, obj)
    m = MON[0]
    s = S.current_sched()
    if m is not None and s is not None and _is_ready_raw(self):
        m.ready_step.setdefault(id(self), s.steps)
    return r


def install_wrappers():
    Connection._dispatch = _w_dispatch
    Connection.async_request = _w_async_request
    AsyncResult.__call__ = _w_ar_call
    Connection.serve = _w_serve
    AsyncResult._is_ready = _ReadyProbe()


def watch_set(full=True):
    core = [_orig["serve"], _orig["dispatch"], Connection._seq_request_callback, Connection._async_request,
            Connection._get_seq_id, _orig["ar_call"], AsyncResult.wait, BgServingThread._bg_server, Connection.poll, Connection.poll_all]
    if not full:
        # quick tier: the hand-off code proper.  Interleavings inside _send are C12's subject; sync_request /
        # async_request / value / stop touch no shared state between the lines that are dropped here.
        return core
    return core + [Connection.sync_request, _orig["async_request"], Connection._send, AsyncResult.value,
                   BgServingThread.stop]


class Peer(object):
    """reference-codec peer: receives frames, answers outstanding PING requests in any order"""

    def __init__(self, stream, nexpected):
        self.stream = stream
        self.buf = bytearray()
        self.outstanding = []
        self.seen = []
        self.answered = 0
        self.nexpected = nexpected
        self.garbage = []

    def _state(self):
        return (bytes(self.buf), tuple(self.outstanding), tuple(self.seen), self.answered)

    def drain(self):
        self.buf += self.stream.inbox
        del self.stream.inbox[:]
        while True:
            r = R.unframe(self.buf)
            if r is None:
                break
            payload, self.buf = r[0], bytearray(r[1])
            kind, seq, args = R.decode(payload)
            if kind == R.REQUEST and args[0] == R.H["ping"]:
                tok = args[1][1][0]        # boxed args: (L_VALUE, (tok,))
                self.seen.append(seq)
                self.outstanding.append((seq, tok))
            else:
                self.garbage.append((kind, seq, args))

    def run(self):
        s = S.current_sched()
        while self.answered < self.nexpected:
            s.block(lambda: bool(self.stream.inbox) or bool(self.outstanding), None, "peer.wait")
            self.drain()
            if self.outstanding:
                i = s.choose(len(self.outstanding), "env.reply-order")
                seq, tok = self.outstanding.pop(i)
                self.answered += 1
                self.stream.write(R.message(R.REPLY, seq, (R.L_VALUE, tok)))


BAD_FIRST = [None]        # index of the requester whose first request cannot be encoded (or None)
BIG = 10 ** 5000


def requester(conn, i, nreq, out):
    if BAD_FIRST[0] == i:
        # a request that passes boxing but cannot be encoded: refused here, with ValueError, and nothing else is disturbed
        try:
            conn.sync_request(consts.HANDLE_PING, BIG)
            REFUSED.append("accepted")
        except ValueError:
            REFUSED.append("refused")
        except Exception as ex:     # noqa
            REFUSED.append("other:%s" % type(ex).__name__)
    for j in range(nreq):
        tok = ("tok", i, j)
        try:
            v = conn.sync_request(consts.HANDLE_PING, tok)
            out.append((i, j, "val", v))
        except AsyncResultTimeout:
            out.append((i, j, "timeout", None))
        except EOFError as ex:
            out.append((i, j, "eof", repr(ex)))
        except Exception as ex:
            out.append((i, j, "exc", repr(ex)))


REFUSED = []


def make_run(nreq_threads, nreq, bg, stop_at_stall=False, timeout=30):
    def run(prefix, want_state, cut_fn):
        gc.disable()
        del REFUSED[:]
        a, b = simnet.SimStream.pair("c", "s")
        conn = Connection(VoidService(), Channel(a, compress=False), {"sync_request_timeout": timeout})
        peer = Peer(b, nreq_threads * nreq)
        mon = Monitor(a, conn)
        MON[0] = mon
        out = []
        roots = [conn, a, b, peer, mon, out]

        def state_fn(s):
            return canon.state_key(s, roots, canon.DEFAULT_PREFIXES)

        sch = S.Scheduler(prefix, state_fn=state_fn if want_state else None, cut_fn=cut_fn,
                          sync_points=False, io_points=True, max_steps=50000, horizon=timeout * 3 + 10)

        def on_clock(s, old, new):
            mon.on_clock(s, old, new)
            if stop_at_stall and mon.stalls:
                s._finish("stall")

        sch.on_clock_advance = on_clock

        def main():
            s = S.current_sched()
            # POR: a peer step (take frames, write one reply) is observable by the connection only through
            # its next poll of the transport, so the peer is offered at those points (and when all else blocks)
            s.spawn(peer.run, "peer", free=True, only_at=POR_AT)
            bgt = BgServingThread(conn) if bg is True else None
            stop_poller = [False]
            pol = None
            if bg == "poller":
                # a second thread that looks after the connection with poll_all() (what .ready / poll() callers do)
                def poller():
                    while not stop_poller[0]:
                        try:
                            conn.poll_all(0)            # serve whatever has arrived, without waiting ...
                        except EOFError:
                            return
                        S.sim_time.sleep(0.05)          # ... and look again a little later (no busy loop)
                pol = S.SimThread(target=poller, name="poller")
                pol.start()
            ts = []
            for i in range(nreq_threads):
                th = S.SimThread(target=requester, args=(conn, i, nreq, out), name="req%d" % i)
                th.start()
                ts.append(th)
            for th in ts:
                th.join()
            if bgt is not None:
                bgt.stop()
            if pol is not None:
                stop_poller[0] = True
                pol.join()

        try:
            sch.run(main)
        finally:
            MON[0] = None
        v13 = []
        if sch.outcome == "deadlock":
            v13.append(("deadlock", "threads deadlocked: %r" % (sch.deadlock_info,)))
        elif sch.outcome == "steps":
            v13.append(("livelock", "step cap reached"))
        elif sch.outcome == "horizon":
            v13.append(("hang", "requests still pending at the virtual-time horizon"))
        elif sch.outcome == "done":
            for t in sch.threads:
                if t.exc is not None:
                    v13.append(("thread-raised", "%s raised %r" % (t.name, t.exc)))
            want = sorted((i, j, "val", ("tok", i, j)) for i in range(nreq_threads) for j in range(nreq))
            got = sorted(out)
            if got != want:
                bad = [g for g in got if g not in want]
                kinds = sorted(set(g[2] for g in bad)) or ["missing"]
                v13.append(("wrong-reply:" + ",".join(kinds), "requesters observed %r, expected %r" % (got, want)))
            if BAD_FIRST[0] is not None and REFUSED != ["refused"]:
                v13.append(("unencodable-request-not-refused", repr(REFUSED)))
            if len(set(peer.seen)) != len(peer.seen):
                v13.append(("seq-reused", "peer saw sequence numbers %r" % (peer.seen,)))
            if peer.garbage:
                v13.append(("unexpected-frame", repr(peer.garbage)))
        for data, n in mon.dispatched.items():
            if n != 1:
                v13.append(("frame-dispatched-%d-times" % n, repr(R.decode(data))))
        v13.extend(mon.lost)
        v14 = list(mon.stalls)
        ok = (sch.outcome, tuple(sorted(out)), tuple(sorted(set(x[0] for x in v14))))
        conn._closed = True
        return sch, {"violations": v13, "v14": v14, "outcome_key": ok}
    return run


def adapt(run, which):
    """select which monitor's verdicts are the violations for the explorer"""
    if which == "C13":
        return run

    def run14(prefix, want_state, cut_fn):
        sch, obs = run(prefix, want_state, cut_fn)
        v = list(obs["v14"])
        if sch.outcome == "deadlock":
            v.append(("deadlock", "threads deadlocked: %r" % (sch.deadlock_info,)))
        return sch, {"violations": v, "outcome_key": obs["outcome_key"]}
    return run14


_ready = [False]
FULL_WATCH = [True]


def prepare(full=None):
    if _ready[0]:
        return
    if full is None:
        full = FULL_WATCH[0]
    env.silence_unraisable()
    trace.watch(watch_set(full))
    install_wrappers()
    _ready[0] = True


# name: (requesters, requests each, bg thread, bound, parallel)
CONFIGS = {
    "quick": [
        ("1req+bg", 1, 1, True, None, True),
        ("2req", 2, 1, False, None, True),
        ("2req+bg/pb2", 2, 1, True, 2, True),
        ("3req/pb1", 3, 1, False, 1, True),
        ("2req-x2/pb1", 2, 2, False, 1, True),
        ("1req+poller/pb2", 1, 1, "poller", 2, True),
        ("2req+unencodable/pb2", 2, 1, False, 2, True),
    ],
    "thorough": [
        ("1req+bg", 1, 1, True, None, True),
        ("2req", 2, 1, False, None, True),
        ("2req+bg/pb3", 2, 1, True, 3, True),
        ("3req/pb3", 3, 1, False, 3, True),
        ("2req-x2/pb3", 2, 2, False, 3, True),
        ("3req+bg/pb2", 3, 1, True, 2, True),
        ("1req+poller/pb3", 1, 1, "poller", 3, True),
        ("2req+poller/pb2", 2, 1, "poller", 2, True),
        ("2req-x2+unencodable/pb2", 2, 2, False, 2, True),
    ],
}


def explore_config(cfg, which, max_seconds, stop_on_violation=True, collect_all=False):
    name, nt, nr, bg, bound, par = cfg
    prepare()
    BAD_FIRST[0] = (nt - 1) if "+unencodable" in name else None
    run = adapt(make_run(nt, nr, bg, stop_at_stall=(which == "C14")), which)
    if par:
        ex = explore.ParallelExplorer(run, bound=bound, max_seconds=max_seconds, stop_on_violation=stop_on_violation)
    else:
        ex = explore.Explorer(run, bound=bound, max_seconds=max_seconds, stop_on_violation=stop_on_violation)
    ex.explore()
    gc.enable()
    return ex


def replay_one(cfgname, choices, which, configs=None):
    configs = configs or CONFIGS
    cfg = [c for c in configs["thorough"] + configs["quick"] if c[0] == cfgname][0]
    name, nt, nr, bg, bound, par = cfg
    prepare()
    BAD_FIRST[0] = (nt - 1) if "+unencodable" in name else None
    run = adapt(make_run(nt, nr, bg, stop_at_stall=(which == "C14")), which)
    outs = []
    for _ in range(2):
        sch, obs = run(choices, False, None)
        outs.append((sch.outcome, obs["violations"], obs["outcome_key"]))
    if outs[0] != outs[1]:
        print("REPLAY-DIVERGENCE", outs)
        return 2
    print("replayed %s %s choices=%r -> outcome=%s violations=%r" % (which, cfgname, choices, outs[0][0], outs[0][1]))
    return 1 if outs[0][1] else 0


def main_for(which, tier, replay_obj, level_rule, assumptions, configs=None):
    configs = configs or CONFIGS
    if replay_obj is not None:
        FULL_WATCH[0] = (replay_obj.get("tier", "quick") == "thorough")
        return replay_one(replay_obj["part"], replay_obj["choices"], which, configs)
    FULL_WATCH[0] = (tier == "thorough")
    res = runner.Result(which, "model_checking", tier, level_rule)
    cap = 240 if tier == "quick" else 900
    known = runner.load_known()

    def unlisted(sig):
        return (which, sig) not in known

    for cfg in configs[tier]:
        # known findings must not stop the search for other violations; an unlisted one ends it
        ex = explore_config(cfg, which, cap, stop_on_violation=unlisted)
        # de-duplicate violations by signature, keep the shortest schedule for each
        best = {}
        for sig, text, choices in ex.violations:
            if sig not in best or len(choices) < len(best[sig][1]):
                best[sig] = (text, choices)
        ex.violations = [(sig, t, c) for sig, (t, c) in sorted(best.items())]
        res.add_explorer(cfg[0], ex)
        res.distinct_count_extra += ex.stats.nontrivial_schedules
        for k in ex.stats.outcomes:
            res.nontrivial((cfg[0], k))
        res.bounds[cfg[0]] = ex.stats.bound_completed
        if any(unlisted(v[0]) for v in ex.violations):
            res.exhaustive = False
            res.caps.append("stopped at first unlisted violation")
            break
    res.assumptions = assumptions
    return res.finish()


def main(tier, replay_obj=None):
    return main_for(
        "C13", tier, replay_obj,
        "every line-granularity interleaving (inside serve/_dispatch/_seq_request_callback/sync_request/async_request/"
        "_async_request/_send/_get_seq_id/AsyncResult.__call__/wait/value/BgServingThread._bg_server) of the requester "
        "threads and the optional background serving thread, against an environment peer that answers outstanding "
        "requests in every order; DFS over schedules with canonical-state cache; distinct = distinct end observations + "
        "executions on a non-default schedule",
        ["scheduling points: source lines of the watched functions and every transport poll/write; C-level operations "
         "(dict.pop, itertools.count.__next__, list ops) atomic under the GIL",
         "the peer is an environment: its scheduling costs no preemption; it answers one outstanding request per step, any order",
         "a waiter that stalls after its reply was processed (C14's subject) completes late with the right value and is not flagged here"])
