"""C12 -- concurrent senders never interleave, lose or strand a message.

Real Connection._send over a real Channel over a recording SimStream with a tiny MAX_IO_CHUNK (every
packet takes Channel.send's three-write path, so contiguity is observable).  Threads call
conn._send(MSG_REQUEST, seq, token).  Optional re-entrancy: the stream's write drops the last
reference to a netref, so the genuine BaseNetref.__del__ -> async_request -> _send path runs inside
the transmission, on the thread that holds the send lock.

Explored: every line-granularity interleaving (state cache, no preemption bound) for 2 threads;
preemption-bounded for 3 threads.
"""
import gc
import struct

from mc import env
rpyc = env.install_sim()
from mc import sched as S, simnet, trace, canon, explore, runner   # noqa: E402
from rpyc.core import brine, consts                                # noqa: E402
from rpyc.core.protocol import Connection                          # noqa: E402
from rpyc.core.channel import Channel                              # noqa: E402
from rpyc.core.service import VoidService                          # noqa: E402
from rpyc.core import netref                                       # noqa: E402

PID = "C12"
HDR = struct.Struct("!LB")


class Monitor(object):
    """incremental oracle over the byte stream written to the transport"""

    def __init__(self, expected_per_thread, expected_dels):
        self.buf = b""
        self.delivered = dict((t, 0) for t in expected_per_thread)
        self.expected = expected_per_thread
        self.dels = 0
        self.expected_dels = expected_dels
        self.bad = []
        self.nframes = 0          # complete frames seen so far

    def feed(self, data):
        self.buf += data
        while len(self.buf) >= HDR.size:
            length, comp = HDR.unpack(self.buf[:HDR.size])
            total = HDR.size + length + 1
            if length > 10000 or comp not in (0, 1):
                self.bad.append(("garbled-frame-header", "header %r" % (self.buf[:HDR.size],)))
                self.buf = b""
                return
            if len(self.buf) < total:
                return
            payload, nl = self.buf[HDR.size:HDR.size + length], self.buf[total - 1:total]
            self.buf = self.buf[total:]
            self.nframes += 1
            if nl != b"\n":
                self.bad.append(("garbled-frame-trailer", "trailer %r" % (nl,)))
                continue
            try:
                msg, seq, args = brine.load(payload)
            except Exception as ex:
                self.bad.append(("garbled-frame-payload", "payload %r: %r" % (payload, ex)))
                continue
            self.on_message(msg, seq, args)

    def on_message(self, msg, seq, args):
        if msg == consts.MSG_REQUEST and isinstance(args, tuple) and args and args[0] == "tok":
            _, t, i = args
            if t not in self.delivered:
                self.bad.append(("unknown-message", repr(args)))
            elif i < self.delivered[t]:
                self.bad.append(("duplicate-message", "token %r sent again" % (args,)))
            elif i > self.delivered[t]:
                self.bad.append(("per-thread-order", "thread %r: token %d left before token %d" % (t, i, self.delivered[t])))
                self.delivered[t] = i + 1
            else:
                self.delivered[t] = i + 1
        elif msg == consts.MSG_REQUEST and isinstance(args, tuple) and args and args[0] == consts.HANDLE_DEL:
            self.dels += 1
            if self.dels > self.expected_dels:
                self.bad.append(("duplicate-message", "more release notices than proxies dropped"))
        else:
            self.bad.append(("unknown-message", repr((msg, seq, args))))

    def final(self, queue_len):
        out = list(self.bad)
        for t, n in self.expected.items():
            if self.delivered[t] < n:
                out.append(("lost-message", "thread %r: %d of %d messages reached the transport" % (t, self.delivered[t], n)))
        if self.dels < self.expected_dels:
            out.append(("lost-message", "release notice of a re-entrant send never reached the transport (%d of %d)" % (self.dels, self.expected_dels)))
        if self.buf:
            out.append(("partial-frame", "%d trailing bytes" % len(self.buf)))
        if queue_len:
            out.append(("stranded-message", "%d message(s) left in the send queue after all senders returned" % queue_len))
        return out

    def _state(self):
        return (tuple(sorted(self.delivered.items())), self.dels, self.buf, len(self.bad))


class RecStream(simnet.SimStream):
    __slots__ = ("monitor", "proxies", "drop_at", "drop_in_frame")

    def write(self, data):
        simnet.SimStream.write(self, data)
        self.monitor.feed(bytes(data))
        # re-entrant send: dropping the last reference runs BaseNetref.__del__ right here
        if self.proxies and self.nwrites in self.drop_at:
            self.proxies.pop()
        # variant: the re-entrant send starts in the middle of the SECOND packet that reaches the transport
        if self.proxies and self.drop_in_frame is not None and self.monitor.nframes == self.drop_in_frame and self.monitor.buf:
            self.proxies.pop()


def build(nthreads, nsends, reentrant):
    a, b = RecStream.pair("c", "s", max_io_chunk=8)
    conn = Connection(VoidService(), Channel(a, compress=False), {})
    mon = Monitor(dict((t, nsends) for t in range(nthreads)), 1 if reentrant else 0)
    a.monitor = mon
    a.proxies = []
    a.drop_at = ()
    a.drop_in_frame = None
    if reentrant:
        cls = netref.builtin_classes_cache["builtins.list"]
        a.proxies.append(cls(conn, ("builtins.list", 1, 2)))
        if reentrant == "second":
            a.drop_in_frame = 1   # in the middle of the second transmitted packet (whoever sends it)
        else:
            a.drop_at = (2,)      # during the second write of the first transmitted packet
    return conn, a, mon


BIG = 10 ** 5000      # passes dumpable(), cannot be encoded: the send fails - in the thread that made it, and only there


def sender(conn, t, n, bad=False):
    if bad:
        try:
            conn._send(consts.MSG_REQUEST, 100 * t + 99, (consts.HANDLE_PING, (consts.LABEL_VALUE, (BIG,))))
            REFUSED.append((t, "accepted"))
        except ValueError:
            REFUSED.append((t, "refused"))
    for i in range(n):
        conn._send(consts.MSG_REQUEST, 100 * t + i, ("tok", t, i))


REFUSED = []


WATCH = None


def install_watch(opcode=False):
    fns = [Connection._send, sender]
    trace.watch(fns, opcode=[Connection._send] if opcode else ())


def make_run(nthreads, nsends, reentrant, bad=False):
    def run(prefix, want_state, cut_fn):
        gc.disable()
        del REFUSED[:]
        conn, stream, mon = build(nthreads, nsends, reentrant)
        roots = [conn, stream, mon]

        def state_fn(s):
            return canon.state_key(s, roots, canon.DEFAULT_PREFIXES)

        sch = S.Scheduler(prefix, state_fn=state_fn if want_state else None, cut_fn=cut_fn,
                          sync_points=False, io_points=True, max_steps=20000)
        done = []

        def main():
            ts = []
            for t in range(nthreads):
                th = S.SimThread(target=sender, args=(conn, t, nsends, bad and t == nthreads - 1), name="sender%d" % t)
                th.start()
                ts.append(th)
            for th in ts:
                th.join()
            done.append(True)

        sch.run(main)
        viol = []
        if sch.outcome == "deadlock":
            viol.append(("deadlock", "senders deadlocked: %r" % (sch.deadlock_info,)))
        elif sch.outcome in ("steps",):
            viol.append(("livelock", "step cap reached"))
        elif sch.outcome == "done":
            for t in sch.threads:
                if t.exc is not None:
                    viol.append(("sender-raised", "%s raised %r" % (t.name, t.exc)))
            viol.extend(mon.final(len(conn._send_queue)))
            if bad and REFUSED != [(nthreads - 1, "refused")]:
                viol.append(("unencodable-message-not-refused-in-its-own-thread", repr(REFUSED)))
        else:
            viol.extend(mon.bad)
        ok = (sch.outcome, tuple(sorted(mon.delivered.items())), mon.dels, len(conn._send_queue))
        # break cycles, release netrefs without touching a scheduler
        stream.proxies = []
        conn._closed = True
        return sch, {"violations": viol, "outcome_key": ok}
    return run


CONFIGS = {
    # name: (threads, sends, reentrant, bound, opcode)
    "quick": [
        ("2x1", 2, 1, False, None, False),
        ("2x2", 2, 2, False, None, False),
        ("2x1+reentrant", 2, 1, True, None, False),
        ("2x2+reentrant", 2, 2, True, None, False),
        ("3x1/pb2", 3, 1, False, 2, False),
        ("3x1+reentrant/pb2", 3, 1, True, 2, False),
        ("2x1+unencodable", 2, 1, False, None, False),
        ("2x1+reentrant-in-second-packet", 2, 1, "second", None, False),
    ],
    "thorough": [
        ("2x1", 2, 1, False, None, False),
        ("2x2", 2, 2, False, None, False),
        ("2x3", 2, 3, False, None, False),
        ("2x1+reentrant", 2, 1, True, None, False),
        ("2x2+reentrant", 2, 2, True, None, False),
        ("2x3+reentrant", 2, 3, True, None, False),
        ("3x1/pb3", 3, 1, False, 3, False),
        ("3x2/pb2", 3, 2, False, 2, False),
        ("3x1+reentrant/pb3", 3, 1, True, 3, False),
        ("3x2+reentrant/pb2", 3, 2, True, 2, False),
        ("2x1+unencodable", 2, 1, False, None, False),
        ("2x1+reentrant-in-second-packet", 2, 1, "second", None, False),
        ("2x2+reentrant-in-second-packet", 2, 2, "second", None, False),
        ("2x2+unencodable", 2, 2, False, None, False),
        ("3x1+unencodable/pb2", 3, 1, False, 2, False),
        ("2x1/opcode", 2, 1, False, None, True),
        ("2x1+reentrant/opcode", 2, 1, True, None, True),
    ],
}


def run_config(cfg, seed, max_seconds):
    name, nt, ns, re_, bound, opcode = cfg
    env.silence_unraisable()
    install_watch(opcode)
    ex = explore.Explorer(make_run(nt, ns, re_, "+unencodable" in name), bound=bound, seed=seed, max_seconds=max_seconds)
    ex.explore()
    gc.enable()
    return name, ex.stats, ex.samples, ex.violations


def replay(rep):
    part = rep["part"]
    cfg = [c for c in CONFIGS["thorough"] + CONFIGS["quick"] if c[0] == part][0]
    name, nt, ns, re_, bound, opcode = cfg
    env.silence_unraisable()
    install_watch(opcode)
    outs = []
    for _ in range(2):
        sch, obs = make_run(nt, ns, re_, "+unencodable" in name)(rep["choices"], False, None)
        outs.append((sch.outcome, obs["violations"], obs["outcome_key"]))
    if outs[0] != outs[1]:
        print("REPLAY-DIVERGENCE", outs)
        return 2
    print("replayed %s choices=%r -> %r" % (part, rep["choices"], outs[0]))
    return 1 if outs[0][1] else 0


def main(tier, replay_obj=None):
    if replay_obj is not None:
        return replay(replay_obj)
    res = runner.Result(PID, "model_checking", tier,
                        "every line-granularity interleaving of the sender threads inside Connection._send and the "
                        "transport writes (DFS over schedules with state cache; 3 threads preemption-bounded); "
                        "distinct = distinct end-of-execution observations (delivered counts, queue length, outcome) "
                        "plus executions taking a non-default schedule")
    cfgs = CONFIGS[tier]
    cap = 300 if tier == "quick" else 1500
    outs = runner.pmap(run_config, [(c, runner.seed(), cap) for c in cfgs])
    for name, st, samples, viols in outs:
        class _E(object):
            pass
        e = _E()
        e.stats, e.samples, e.violations = st, samples, viols
        res.add_explorer(name, e)
        res.distinct_count_extra += st.nontrivial_schedules
        for k in st.outcomes:
            res.nontrivial((name, k))
        res.bounds[name] = st.bound_completed
    res.assumptions = [
        "scheduling points: every source line of Connection._send and of the sender body, plus every transport write "
        "(opcode granularity in the */opcode configurations); C-level operations (list.append/pop, lock) are atomic under the GIL",
        "state cache key: frames+locals of every thread in rpyc/harness files, the Connection, the stream and the oracle monitor",
    ]
    return res.finish()
