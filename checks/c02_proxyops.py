"""C02 -- operating on a proxy is indistinguishable from operating on the target.

Explicit-state BFS where the state is the canonical value of the target (so the search is over states x
operations, not sequences): for every target kind {list, dict, set, bytearray, deque, list-iterator, generator,
binary file, user class with operator overloads / properties / __bool__ / __len__ / context manager}, every reachable
state (value domain {0,1,2}, containers <= 3 items) and every operation of an alphabet of ~90 (attribute get/set/
del existing/missing, method calls, every binary/reflected/in-place/unary operator with operands
{0, 1, 2, "a", (9,), a second proxy}, index/slice get/set/del in and out of range, iteration, in, len/str/repr/hash/
bool/dir/format, isinstance and __class__, with-statement), the operation is applied through the proxy to the real
target and directly to a twin built by the same history; compared: result (equal value and type; for references the
same role - the target itself or a new object with equal value), exception CLASS, and canonical post-state.
Modes: classic (SlaveService), public-attribute mode (+set/del), default configuration (operations the policy
refuses with its own AttributeError are outside the statement and skipped).
Buffered iteration: every (chunk, factor, max_chunk) in {1,2,3,10} x {1,2,3} x {1,2,5,1000} over iterables of length
0..12, and factor < 1.
"""
import collections
import io
import operator

from mc import env
rpyc = env.install_sim()
from mc import sched as S, pair, runner, values as V                  # noqa: E402
import rpyc as _rpyc                                                   # noqa: E402
from rpyc.core import netref                                           # noqa: E402
from rpyc.core.service import SlaveService                             # noqa: E402
from rpyc.utils.helpers import buffiter                                # noqa: E402

PID = "C02"


def is_proxy(x):
    return isinstance(type(x), netref.NetrefMetaclass)


class Vec(object):
    """user class with operator overloads, properties, __bool__, __len__, context-manager protocol"""
    # a twin under the exposed prefix of a PUBLIC attribute: where the plain name is allowed and present it is the plain
    # attribute that a proxy reads and writes, exactly as on the target itself
    exposed_entered = "twin"

    def __init__(self, *xs):
        self.xs = list(xs)
        self.entered = 0
        self.log = []

    @property
    def first(self):
        return self.xs[0]

    @first.setter
    def first(self, v):
        self.xs[0] = v

    def __len__(self):
        return len(self.xs)

    def __bool__(self):
        return bool(self.xs) and self.xs[0] != 0

    def __add__(self, o):
        return Vec(*(self.xs + (o.xs if hasattr(o, "xs") else [o])))

    def __radd__(self, o):
        return Vec(*([o] + self.xs))

    def __iadd__(self, o):
        self.xs.append(o if not hasattr(o, "xs") else len(o.xs))
        return self

    def __mul__(self, o):
        return Vec(*(self.xs * o))

    def __neg__(self):
        return Vec(*[-x for x in self.xs])

    def __eq__(self, o):
        # comparisons are observable (audit trail, bounded) and not reflexive for a vector starting with -1: a proxy
        # must forward even `p == p` to the target
        self.log = (self.log + ["eq"])[-2:]
        if self.xs and self.xs[0] == -1:
            return False
        return hasattr(o, "xs") and list(o.xs) == self.xs

    def __ne__(self, o):
        self.log = (self.log + ["ne"])[-2:]
        if self.xs and self.xs[0] == -1:
            return False
        return not (hasattr(o, "xs") and list(o.xs) == self.xs)

    def __lt__(self, o):
        return len(self.xs) < (len(o.xs) if hasattr(o, "xs") else o)

    def __hash__(self):
        return hash(tuple(self.xs))

    def __getitem__(self, i):
        return self.xs[i]

    def __setitem__(self, i, v):
        self.xs[i] = v

    def __delitem__(self, i):
        del self.xs[i]

    def __contains__(self, x):
        return x in self.xs

    def __iter__(self):
        return iter(self.xs)

    def __enter__(self):
        self.entered += 1
        return len(self.xs)

    def __exit__(self, t, v, tb):
        self.log = (self.log + ["exit"])[-2:]
        return False

    def __call__(self, a, b=0):
        return a + b + len(self.xs)

    def __format__(self, spec):
        return "V%s%d" % (spec, len(self.xs))

    def __str__(self):
        return "Vec%r" % (self.xs,)

    def stat(self):
        """a result whose type is a SUBCLASS of tuple: not a value - it keeps its type, field names and methods"""
        return V.Point(len(self.xs), self.xs[0] if self.xs else None)

    def grow(self, x):
        self.xs.append(x)
        return len(self.xs)

    def boom(self):
        raise KeyError("boom")


def gen3():
    got = yield 0
    got = yield (1 if got is None else got)
    yield 2
    return "done"


KINDS = {
    "list": lambda: [0, 1],
    "dict": lambda: {0: 1, "a": 2},
    "set": lambda: {0, 1},
    "bytearray": lambda: bytearray(b"ab"),
    "deque": lambda: collections.deque([0, 1]),
    "listiter": lambda: iter([0, 1, 2]),
    "generator": gen3,
    "file": lambda: io.BytesIO(b"abcdef"),
    "vec": lambda: Vec(1, 2),
}


def canon_state(kind, o):
    if kind in ("list", "deque"):
        return (kind, tuple(V.canon_repr(x) if V.plain_immutable(x) else repr(type(x)) for x in o))
    if kind == "dict":
        return (kind, tuple(sorted((repr(k), repr(v)) for k, v in o.items())))
    if kind == "set":
        return (kind, tuple(sorted(repr(x) for x in o)))
    if kind == "bytearray":
        return (kind, bytes(o))
    if kind == "listiter":
        return (kind, o.__length_hint__())
    if kind == "generator":
        fr = o.gi_frame
        return (kind, None if fr is None else fr.f_lasti)
    if kind == "file":
        return (kind, o.closed, None if o.closed else (o.tell(), o.getvalue()))
    if kind == "vec":
        return (kind, tuple(o.xs), getattr(o, "entered", "<deleted>"), tuple(getattr(o, "log", ("<deleted>",))))
    return (kind, repr(o))


def size_ok(kind, o):
    try:
        if kind in ("list", "deque", "set", "dict", "bytearray"):
            return len(o) <= 3
        if kind == "vec":
            return len(o.xs) <= 3
        if kind == "file":
            return o.closed or len(o.getvalue()) <= 8
    except Exception:
        pass
    return True


OPERANDS = (0, 1, 2, "a", (9,), b"z")


CTX = {"cls": None}


def ops_for(kind):
    """[(label, fn(obj, other) -> result)]  `other` is a second object of the same kind (proxy or local twin)"""
    ops = []

    def add(label, fn):
        ops.append((label, fn))
    # class queries: CTX["cls"] is the target's class, by reference in the proxy run and the local class in the twin run
    if kind in ("vec", "deque", "list", "file"):
        cargs = {"vec": (1, 2), "deque": ((0,),), "list": ((0,),), "file": (b"xy",)}[kind]
        add("cls:callable", lambda o, x: callable(CTX["cls"]))
        add("cls:call", lambda o, x: CTX["cls"](*cargs) if kind != "file" else type(CTX["cls"](*cargs)).__name__ != "")
        add("cls:name", lambda o, x: CTX["cls"].__name__)
        # comparisons whose TARGET is the class object itself (type.__eq__ / a metaclass's, not the instances' methods)
        add("cls:eq-itself", lambda o, x: CTX["cls"] == CTX["cls"])
        add("cls:ne-itself", lambda o, x: CTX["cls"] != CTX["cls"])
        add("cls:eq-5", lambda o, x: CTX["cls"] == 5)
        add("cls:ne-none", lambda o, x: CTX["cls"] != None)      # noqa: E711
        add("cls:isinstance(obj, cls)", lambda o, x: isinstance(o, CTX["cls"]))
        add("obj:callable", lambda o, x: callable(o))
    add("len", lambda o, x: len(o))
    add("str", lambda o, x: str(o) if kind not in ("listiter", "generator", "file") else type(str(o)).__name__)
    add("repr", lambda o, x: repr(o) if kind not in ("listiter", "generator", "file", "vec") else type(repr(o)).__name__)
    add("bool", lambda o, x: bool(o))
    add("hash", lambda o, x: hash(o) if kind == "vec" else type(hash(o)).__name__)
    add("dir", lambda o, x: tuple(sorted(dir(o))))
    add("format", lambda o, x: format(o, "") if kind == "vec" else type(format(o, "")).__name__)
    add("list(iter)", lambda o, x: list(o))
    add("iter-is-iterator", lambda o, x: [a for a in iter(o)])
    add("next", lambda o, x: next(o))
    add("class-name", lambda o, x: o.__class__.__name__)
    for T in (list, dict, collections.deque, Vec, bytearray, set, object):
        add("isinstance:%s" % T.__name__, lambda o, x, T=T: isinstance(o, T))
    add("with", lambda o, x: _with(o))
    add("getattr-missing", lambda o, x: o.no_such_attribute)
    add("setattr", lambda o, x: setattr(o, "extra", 5))
    add("delattr-missing", lambda o, x: delattr(o, "no_such_attribute"))
    for v in OPERANDS:
        add("in:%r" % (v,), lambda o, x, v=v: v in o)
        add("add:%r" % (v,), lambda o, x, v=v: o + v)
        add("radd:%r" % (v,), lambda o, x, v=v: v + o)
        add("mul:%r" % (v,), lambda o, x, v=v: o * v)
        add("sub:%r" % (v,), lambda o, x, v=v: o - v)
        add("or:%r" % (v,), lambda o, x, v=v: o | v)
        add("and:%r" % (v,), lambda o, x, v=v: o & v)
        add("eq:%r" % (v,), lambda o, x, v=v: o == v)
        add("ne:%r" % (v,), lambda o, x, v=v: o != v)
        add("lt:%r" % (v,), lambda o, x, v=v: o < v)
        add("ge:%r" % (v,), lambda o, x, v=v: o >= v)
        add("iadd:%r" % (v,), lambda o, x, v=v: operator.iadd(o, v))
        add("getitem:%r" % (v,), lambda o, x, v=v: o[v])
        add("setitem:%r" % (v,), lambda o, x, v=v: operator.setitem(o, v, 2))
        add("delitem:%r" % (v,), lambda o, x, v=v: operator.delitem(o, v))
    for sl in (slice(0, 1), slice(None, None, 2), slice(5, 9), slice(-1, None)):
        add("getslice:%r" % (sl,), lambda o, x, sl=sl: o[sl])
        add("delslice:%r" % (sl,), lambda o, x, sl=sl: operator.delitem(o, sl))
        add("setslice:%r" % (sl,), lambda o, x, sl=sl: operator.setitem(o, sl, (2,) if kind != "bytearray" else b"c"))
    add("getitem:-1", lambda o, x: o[-1])
    add("getitem:5", lambda o, x: o[5])
    add("neg", lambda o, x: -o)
    add("pos", lambda o, x: +o)
    add("invert", lambda o, x: ~o)
    add("abs", lambda o, x: abs(o))
    # operands that are objects on the target's side
    add("eq:other", lambda o, x: o == x)
    add("ne:other", lambda o, x: o != x)
    add("lt:other", lambda o, x: o < x)
    add("add:other", lambda o, x: o + x)
    add("or:other", lambda o, x: o | x)
    add("iadd:other", lambda o, x: operator.iadd(o, x))
    add("in:other", lambda o, x: x in o)
    add("eq:self", lambda o, x: o == o)
    add("ne:self", lambda o, x: o != o)
    # methods per kind
    meth = {
        "list": [("append", (2,)), ("pop", ()), ("pop", (5,)), ("clear", ()), ("extend", ((1, 2),)), ("index", (1,)), ("index", (7,)),
                 ("count", (0,)), ("reverse", ()), ("sort", ()), ("insert", (0, 2)), ("remove", (7,)), ("copy", ())],
        "dict": [("keys", ()), ("values", ()), ("items", ()), ("get", ("a",)), ("get", ("zz", 5)), ("pop", ("a",)), ("pop", ("zz",)),
                 ("update", (((1, 1),),)), ("clear", ()), ("setdefault", (2, 2)), ("popitem", ()), ("copy", ())],
        "set": [("add", (2,)), ("discard", (0,)), ("remove", (7,)), ("pop", ()), ("clear", ()), ("union", ((1, 2),)), ("issubset", ((0, 1, 2),)),
                ("copy", ())],
        "bytearray": [("append", (99,)), ("append", (300,)), ("extend", (b"c",)), ("pop", ()), ("decode", ()), ("upper", ()), ("find", (b"b",)),
                      ("clear", ())],
        "deque": [("append", (2,)), ("appendleft", (2,)), ("pop", ()), ("popleft", ()), ("rotate", (1,)), ("clear", ()), ("count", (0,))],
        "listiter": [("__length_hint__", ())],
        "generator": [("send", (None,)), ("send", (7,)), ("throw", (ValueError,)), ("throw", (ValueError("x"),)), ("close", ())],
        "file": [("read", (2,)), ("read", ()), ("seek", (0,)), ("seek", (3,)), ("tell", ()), ("write", (b"zz",)), ("truncate", (2,)),
                 ("close", ()), ("readline", ()), ("getvalue", ()), ("readable", ())],
        "vec": [("grow", (0,)), ("boom", ()), ("__call__", (1,)), ("__call__", (1, 2)), ("stat", ())],
    }
    for name, args in meth.get(kind, []):
        add("call:%s%r" % (name, args), lambda o, x, name=name, args=args: getattr(o, name)(*args))
    if kind == "vec":
        add("call-kw", lambda o, x: o(1, b=5))
        add("prop-get", lambda o, x: o.first)
        add("prop-set", lambda o, x: setattr(o, "first", 0))
        add("attr-get", lambda o, x: o.entered)
        add("attr-set-existing", lambda o, x: setattr(o, "entered", 2))
        add("attr-del-existing", lambda o, x: delattr(o, "log"))
    return ops


def _with(o):
    with o as v:
        return ("entered", v)


# operations whose operands live on the caller's side or that consume the proxy through a C-level protocol: out of scope
OUT_OF_SCOPE = ("call:throw(<class 'ValueError'>,)", "call:throw(ValueError('x'),)")
# bytes + proxy-of-bytearray needs the buffer protocol on the proxy (C-level consumption of the proxy)
OUT_OF_SCOPE_PER_KIND = {"bytearray": ("radd:b'z'", "eq:b'z'", "ne:b'z'", "lt:b'z'", "ge:b'z'")}


def norm_result(r, proxy, local_target, depth=0):
    """comparable description of a result (for the proxy run, references are described through the proxy)"""
    if is_proxy(r):
        if r is proxy:
            return ("self",)
        cname = r.__class__.__name__
        return ("ref", cname, _describe(r, depth))
    if local_target is not None and r is local_target:
        return ("self",)
    if V.plain_immutable(r):
        return ("val", V.canon_repr(r))
    if type(r) is tuple:
        return ("tuple",) + tuple(norm_result(x, proxy, local_target, depth + 1) for x in r)
    return ("ref", r.__class__.__name__, _describe(r, depth))


def _describe(r, depth):
    cname = r.__class__.__name__
    try:
        if cname in ("list", "tuple", "deque", "set", "frozenset", "dict_keys", "dict_values", "dict_items", "bytearray", "bytes"):
            items = [V.canon_repr(x) if V.plain_immutable(x) else "<ref>" for x in list(r)]
            return tuple(sorted(items)) if "set" in cname else tuple(items)
        if cname == "dict":
            return tuple(sorted((repr(k), repr(r[k])) for k in list(r)))      # iteration + indexing: permitted in every mode
        if cname == "Vec":
            return tuple(list(r))       # through iteration: permitted in every mode
    except Exception as ex:
        return ("<undescribable:%s>" % type(ex).__name__,)
    return ()


def exc_class(e):
    for c in type(e).__mro__:
        if c.__module__ == "builtins":
            return c.__name__
    return type(e).__name__


def apply_op(fn, obj, other, local_target):
    try:
        r = fn(obj, other)
        return ("ok", norm_result(r, obj if is_proxy(obj) else None, local_target))
    except S.SimAbort:
        raise
    except StopIteration:
        return ("exc", "StopIteration")
    except Exception as e:
        return ("exc", exc_class(e), str(e)[:60])


MODES = {
    "classic": None,
    "public": {"allow_public_attrs": True, "allow_setattr": True, "allow_delattr": True},
    "default": {},
}


class Holder(_rpyc.Service):
    """non-classic modes: hands the target out by reference"""

    def __init__(self):
        self.objs = {}

    def exposed_get(self, key):
        return self.objs[key]


def explore_kind(kind, mode, depth, class_first=False):
    """BFS over canonical target states.  returns (states, transitions, violations, samples)"""
    env.silence_unraisable()
    mk = KINDS[kind]
    ops = ops_for(kind)
    viol = []
    seen = {}
    stats = {"transitions": 0, "skipped_by_policy": 0}
    cfg = MODES[mode]
    if mode == "classic":
        w = pair.World(connect_now=False)
    else:
        holder = Holder()
        w = pair.World(_rpyc.VoidService(), holder, {}, cfg)

    def build(history):
        """real target (on the 'server'), twin, and their companions, after replaying history directly (no rpyc)"""
        t, tw, o, ow = mk(), mk(), mk(), mk()
        for label in history:
            fn = dict(ops)[label]
            for a, b in ((t, o), (tw, ow)):
                try:
                    fn(a, b)
                except Exception:
                    pass
        return t, tw, o, ow

    def main():
        from rpyc.core.channel import Channel
        if mode == "classic":
            w.sconn = SlaveService()._connect(Channel(w.b), {})
            w.start_server()
            w.cconn = _rpyc.core.service.MasterService()._connect(Channel(w.a), {})
        else:
            w.start_server()
        conn = w.cconn
        frontier = [()]
        seen[canon_state(kind, mk())] = ()
        for d in range(depth):
            nxt = []
            for hist in frontier:
                for label, fn in ops:
                    if label in OUT_OF_SCOPE or label in OUT_OF_SCOPE_PER_KIND.get(kind, ()):
                        continue
                    t, tw, o, ow = build(hist)
                    if not size_ok(kind, t):
                        continue
                    # hand the real target and its companion to the client by reference
                    stats["last"] = (hist, label)
                    want_cls = label.startswith("cls:")
                    pc = None
                    if mode == "classic":
                        key = "k"
                        w.sconn._local_root.namespace["_t"] = t
                        w.sconn._local_root.namespace["_o"] = o
                        if class_first or want_cls:
                            pc = conn.eval("type(_t)")
                        p = conn.eval("_t")
                        po = conn.eval("_o")
                    else:
                        holder.objs["t"], holder.objs["o"], holder.objs["c"] = t, o, type(t)
                        if class_first or want_cls:
                            pc = conn.root.get("c")
                        p = conn.root.get("t")
                        po = conn.root.get("o")
                    if not is_proxy(p):
                        viol.append(("target-arrived-by-value:%s" % kind, label))
                        return
                    CTX["cls"] = pc
                    got = apply_op(fn, p, po, None)
                    CTX["cls"] = type(tw)
                    want = apply_op(fn, tw, ow, tw)
                    CTX["cls"] = None
                    del pc
                    stats["transitions"] += 1
                    if mode != "classic" and got[0] == "exc" and got[1] == "AttributeError" and "cannot access" in got[2]:
                        stats["skipped_by_policy"] += 1
                        del p, po
                        continue
                    post_t, post_tw = canon_state(kind, t), canon_state(kind, tw)
                    g, wnt = got[:2], want[:2]
                    if g != wnt:
                        what = "exception-class" if (got[0] == "exc" and want[0] == "exc") else (
                            "raised-instead-of-result" if got[0] == "exc" else ("result-instead-of-raise" if want[0] == "exc" else "result"))
                        opname = label.split(":")[0] if not label.startswith(("cls:", "obj:")) else label.replace(":", "-")
                        viol.append(("%s:op=%s:target=%s:got=%s:want=%s" % (what, opname, kind,
                                                                             got[1] if got[0] == "exc" else "value",
                                                                             want[1] if want[0] == "exc" else "value"),
                                     "mode %s, history %r then %s: proxy %r, twin %r" % (mode, list(hist), label, got, want)))
                    elif post_t != post_tw:
                        viol.append(("post-state-differs:op=%s:target=%s" % (label.split(":")[0], kind),
                                     "mode %s, history %r then %s: target %r twin %r" % (mode, list(hist), label, post_t, post_tw)))
                    del p, po
                    if post_t not in seen and size_ok(kind, t):
                        seen[post_t] = hist + (label,)
                        nxt.append(hist + (label,))
                    if len(viol) > 30:
                        return
            frontier = nxt

    sch, _, exc = pair.run(main, horizon=10 ** 7, world=w, max_steps=10 ** 8)
    if exc is not None or sch.outcome != "done":
        import traceback
        viol.append(("harness:%s:%s" % (kind, sch.outcome), repr(stats.get("last")) + "".join(traceback.format_exception(type(exc), exc, exc.__traceback__))[-600:] if exc else ""))
    return len(seen), stats["transitions"], viol, stats["skipped_by_policy"]


def explore_same_proxy(kind, mode):
    """the BFS above fetches a FRESH proxy for every operation, so anything a proxy remembers is invisible to it.  Here one
    live proxy receives a, b, a again - for every operation a that leaves the initial target unchanged (an observer) and
    every operation b - and each step is compared with the twin: a proxy must not answer from memory."""
    env.silence_unraisable()
    _twin_for(mode)
    mk = KINDS[kind]
    ops = [(l, f) for l, f in ops_for(kind) if not (l in OUT_OF_SCOPE or l in OUT_OF_SCOPE_PER_KIND.get(kind, ()) or l.startswith("cls:"))]
    viol = []
    stats = {"sequences": 0, "steps": 0}
    cfg = MODES[mode]
    if mode == "classic":
        w = pair.World(connect_now=False)
    else:
        holder = Holder()
        w = pair.World(_rpyc.VoidService(), holder, {}, cfg)

    def main():
        from rpyc.core.channel import Channel
        if mode == "classic":
            w.sconn = SlaveService()._connect(Channel(w.b), {})
            w.start_server()
            w.cconn = _rpyc.core.service.MasterService()._connect(Channel(w.a), {})
        else:
            w.start_server()
        conn = w.cconn

        def fetch(t, o):
            if mode == "classic":
                w.sconn._local_root.namespace["_t"] = t
                w.sconn._local_root.namespace["_o"] = o
                return conn.eval("_t"), conn.eval("_o")
            holder.objs["t"], holder.objs["o"], holder.objs["c"] = t, o, type(t)
            return conn.root.get("t"), conn.root.get("o")

        # observers: no exception and no change of the initial state, on the twin
        init = canon_state(kind, mk())
        observers = []
        for label, fn in ops:
            tw, ow = mk(), mk()
            r = apply_op(fn, tw, ow, tw)
            if r[0] != "exc" and canon_state(kind, tw) == init and kind not in ("listiter", "generator", "file"):
                observers.append((label, fn))
        # operations whose answer on a FRESH proxy already differs from the twin's are the BFS part's business (they are
        # reported there); this pass is about what a proxy remembers
        differs_when_fresh = set()
        for label, fn in ops:
            t, tw, o, ow = mk(), mk(), mk(), mk()
            pr, po = fetch(t, o)
            CTX["cls"] = None
            if apply_op(fn, pr, po, None)[:2] != apply_op(fn, tw, ow, tw)[:2]:
                differs_when_fresh.add(label)
            del pr, po
        for la, fa in observers:
            if la in differs_when_fresh:
                continue
            for lb, fb in ops:
                if lb in differs_when_fresh:
                    continue
                t, tw, o, ow = mk(), mk(), mk(), mk()
                pr, po = fetch(t, o)
                stats["sequences"] += 1
                for step, (label, fn) in enumerate(((la, fa), (lb, fb), (la, fa))):
                    stats["steps"] += 1
                    CTX["cls"] = None
                    got = apply_op(fn, pr, po, None)
                    want = apply_op(fn, tw, ow, tw)
                    if mode != "classic" and got[0] == "exc" and got[1] == "AttributeError" and "cannot access" in got[2]:
                        break
                    post_t, post_tw = canon_state(kind, t), canon_state(kind, tw)
                    if got[:2] != want[:2] or post_t != post_tw:
                        opname = label.split(":")[0] if not label.startswith("obj:") else label.replace(":", "-")
                        viol.append(("same-proxy:%s:op=%s:target=%s" % ("answer-differs" if got[:2] != want[:2] else "post-state-differs", opname, kind),
                                     "mode %s, one live proxy, sequence %r step %d: proxy %r (target %r), twin %r (%r)" % (
                                         mode, [la, lb, la], step, got[:2], post_t, want[:2], post_tw)))
                        break
                    if not size_ok(kind, t):
                        break
                del pr, po
                if len(viol) > 10:
                    return

    sch, _, exc = pair.run(main, horizon=10 ** 7, world=w, max_steps=10 ** 8)
    if exc is not None or sch.outcome != "done":
        import traceback
        viol.append(("harness:same-proxy:%s:%s" % (kind, sch.outcome), "".join(traceback.format_exception(type(exc), exc, exc.__traceback__))[-600:] if exc else ""))
    return stats["sequences"], stats["steps"], viol


def check_buffiter(idx, nchunks):
    env.silence_unraisable()
    viol = []
    n = [0]
    w = pair.World(connect_now=False)

    def main():
        from rpyc.core.channel import Channel
        w.sconn = SlaveService()._connect(Channel(w.b), {})
        w.start_server()
        w.cconn = _rpyc.core.service.MasterService()._connect(Channel(w.a), {})
        conn = w.cconn
        cases = [(L, c, f, m) for L in range(0, 13) for c in (1, 2, 3, 10) for f in (1, 2, 3) for m in (1, 2, 5, 1000)]
        for i, (L, c, f, m) in enumerate(cases):
            if i % nchunks != idx:
                continue
            n[0] += 1
            w.sconn._local_root.namespace["_r"] = list(range(L))
            p = conn.eval("_r")
            try:
                got = list(buffiter(p, chunk=c, max_chunk=m, factor=f))
            except Exception as ex:
                viol.append(("buffiter-raised:%s" % type(ex).__name__, "len %d chunk %d factor %d max %d" % (L, c, f, m)))
                continue
            if got != list(range(L)):
                viol.append(("buffiter-differs-from-plain-iteration", "len %d chunk %d factor %d max %d: %r" % (L, c, f, m, got)))
        if idx == 0:
            for f in (0, 0.5, -1):
                n[0] += 1
                w.sconn._local_root.namespace["_r"] = [1, 2]
                p = conn.eval("_r")
                try:
                    list(buffiter(p, factor=f))
                    viol.append(("buffiter-accepted-factor-below-1", repr(f)))
                except ValueError:
                    pass
    sch, _, exc = pair.run(main, horizon=10 ** 7, world=w)
    if exc is not None or sch.outcome != "done":
        viol.append(("buffiter-harness:%s" % sch.outcome, repr(exc)))
    return n[0], viol


def _twin_for(mode):
    """the exposed-prefix twin of Vec.entered exists only where the plain name is itself allowed (classic, public): in the
    default mode the policy - by design - serves the twin in place of the refused plain name, which is C06's subject"""
    if mode == "default":
        if "exposed_entered" in Vec.__dict__:
            delattr(Vec, "exposed_entered")
    else:
        Vec.exposed_entered = "twin"


def run_kind(kind, mode, depth, class_first=False):
    _twin_for(mode)
    return explore_kind(kind, mode, depth, class_first)


def replay(rep):
    env.silence_unraisable()
    if rep.get("part") == "buffiter":
        a, b = check_buffiter(0, 1)[1], check_buffiter(0, 1)[1]
    else:
        a = explore_kind(rep["kind"], rep["mode"], rep.get("depth", 2), rep.get("class_first", False))[2]
        b = explore_kind(rep["kind"], rep["mode"], rep.get("depth", 2), rep.get("class_first", False))[2]
    if sorted(x[0] for x in a) != sorted(x[0] for x in b):
        print("REPLAY-DIVERGENCE")
        return 2
    for x in a[:8]:
        print(x)
    return 1 if a else 0


def main(tier, replay_obj=None):
    if replay_obj is not None:
        return replay(replay_obj)
    env.silence_unraisable()
    depth = 2 if tier == "quick" else 3
    res = runner.Result(PID, "model_checking", tier,
                        "explicit-state BFS over canonical target states x an alphabet of ~%d operations per target kind (9 kinds) in 3 "
                        "configuration modes, depth %d; every (state, operation) is applied through a proxy to the real target and directly "
                        "to a twin, comparing result / exception class / post-state; buffered iteration for all 1872 parameter combinations; "
                        "distinct = canonical target states" % (len(ops_for("list")), depth))
    tasks = [(k, m, depth if m == "classic" else min(depth, 2), False) for k in KINDS for m in MODES]
    # the same searches on connections that receive the target's CLASS before any instance of it
    tasks += [(k, m, 1, True) for k in ("vec", "deque") for m in ("classic", "public")]
    outs = runner.pmap(run_kind, tasks)
    for (k, m, d, cf), (ns, nt, viol, skipped) in zip(tasks, outs):
        name = "%s/%s%s" % (k, m, "/class-first" if cf else "")
        res.parts[name] = {"states": ns, "transitions": nt, "skipped_by_policy": skipped, "depth": d}
        res.states += ns
        res.transitions += nt
        res.evaluations += nt
        res.traces += nt
        res.distinct_count_extra += ns
        seen = set()
        for sig, text in viol:
            if sig not in seen:
                seen.add(sig)
                res.violation(sig, text, {"kind": k, "mode": m, "depth": d, "class_first": cf})
    sp_tasks = [(k, m) for k in KINDS if k not in ("listiter", "generator", "file") for m in (("classic",) if tier == "quick" else MODES)]
    outs = runner.pmap(explore_same_proxy, sp_tasks)
    for (k, m), (nseq, nsteps, viol) in zip(sp_tasks, outs):
        res.parts["same-proxy/%s/%s" % (k, m)] = {"sequences": nseq, "steps": nsteps}
        res.transitions += nsteps
        res.evaluations += nsteps
        res.traces += nseq
        seen = set()
        for sig, text in viol:
            if sig not in seen:
                seen.add(sig)
                res.violation(sig, text, {"part": "same-proxy", "kind": k, "mode": m})
    outs = runner.pmap(check_buffiter, [(i, 16) for i in range(16)])
    nb = 0
    for n, viol in outs:
        nb += n
        for sig, text in viol:
            res.violation(sig, text, {"part": "buffiter"})
    res.evaluations += nb
    res.parts["buffiter"] = {"cases": nb}
    res.add_sample({"kind": "list", "mode": "classic", "history": ["call:append(2,)"], "operation": "getslice:slice(None, None, 2)"})
    res.add_sample({"kind": "generator", "mode": "classic", "history": ["next"], "operation": "call:send(7,)"})
    res.bounds["depth"] = depth
    res.assumptions = ["operands are immutable values or objects on the target's side; gen.throw(local exception class/instance) and C-level "
                       "consumption of a proxy (bytes(p), int(p), buffer protocol) are out of scope",
                       "in the restricted modes an operation refused by the policy's own AttributeError('cannot access ...') is not compared (C06)",
                       "address-bearing repr/str of iterators, generators and files are compared by type only"]
    return res.finish()
