"""C09 -- remote exceptions arrive as the same class with the same data, and safely.

Two halves joined by the exact record bytes (reference codec in the middle):
  sender half:   a real serving Connection (include_local_traceback x include_local_version) raises the exception in a
                 handler; the raw peer captures the exception record it transmits;
  receiver half: a real requesting Connection (instantiate_custom_exceptions x import_custom_exceptions) gets that
                 record as the answer to a request and raises it.
Enumerated: every BaseException subclass in builtins x 7 argument tuples (plus class-specific valid tuples) x 2^2
sender switches x 2^2 receiver switches; custom classes {already imported, importable-not-yet-imported, unknown module,
non-exception attribute of a real module}; hostile records (every 4-tuple shape over the value grammar, wrong arities,
wrong types).  Oracle: class identity (isinstance + except-clause), args after the documented normalisation, public
immutable attributes, traceback/version gating, custom-class gating, and canaries (import counter, sys.modules,
__init__/__new__ side effects).
"""
import builtins
import os
import sys
import tempfile
import shutil

from mc import env
rpyc = env.install_sim()
from mc import runner, rawpeer as RP, refcodec as R, values as V     # noqa: E402
import rpyc as _rpyc                                                  # noqa: E402
from rpyc.core import brine, consts, vinegar                          # noqa: E402
from rpyc import version as rversion                                  # noqa: E402

PID = "C09"
CONSTRUCTED = []


class CustomError(Exception):
    """custom exception, module already imported on the receiver"""

    def __new__(cls, *a):
        CONSTRUCTED.append("new")
        return Exception.__new__(cls, *a)

    def __init__(self, *a):
        CONSTRUCTED.append("init")
        Exception.__init__(self, *a)


def builtin_exception_classes():
    seen = []
    for name in sorted(dir(builtins)):
        c = getattr(builtins, name)
        if isinstance(c, type) and issubclass(c, BaseException) and c not in seen:
            seen.append(c)
    return seen


SPECIFIC = {
    "UnicodeDecodeError": [("utf-8", b"\xff", 0, 1, "bad")],
    "UnicodeEncodeError": [("utf-8", "x", 0, 1, "bad")],
    "UnicodeTranslateError": [("x", 0, 1, "bad")],
    "SyntaxError": [("msg", ("file.py", 3, 5, "text"))],
    "IndentationError": [("msg", ("file.py", 3, 5, "text"))],
    "TabError": [("msg", ("file.py", 3, 5, "text"))],
    "ImportError": [("no mod",)],
    "ExceptionGroup": [("grp", (ValueError(1),))],
    "BaseExceptionGroup": [("grp", (KeyError(2),))],
}
GENERIC_ARGS = [(), ("m",), (1, "a"), (2, "m", "file"), ([1],), (object(),), ((1, (2, b"x")), None),
                # falsy first arguments (a generator that returns 0 / "" / False, error codes of 0, ...)
                (0,), ("",), (False, "detail"), (None, 5), ((),), (0.0, b"")]


class Unrepr(object):
    def __repr__(self):
        return "<unrepr>"


def make_instances():
    """[(label, exception instance)]"""
    out = []
    for c in builtin_exception_classes():
        for args in GENERIC_ARGS + SPECIFIC.get(c.__name__, []):
            a = tuple(list(x) if isinstance(x, list) else x for x in args)
            if c.__name__ in ("ExceptionGroup", "BaseExceptionGroup") and args in SPECIFIC.get(c.__name__, []):
                a = (args[0], list(args[1]))
            try:
                e = c(*a)
            except Exception:
                continue
            out.append(("%s%r" % (c.__name__, args), e))
    return out


def normalised_args(e):
    out = []
    for a in e.args:
        out.append(a if V.plain_immutable(a) else repr(a))
    return tuple(out)


def public_attrs(e):
    """public attributes of the original that are immutable plain values"""
    d = {}
    for name in dir(e):
        if name.startswith("_") or name in ("args", "with_traceback", "add_note"):
            continue
        try:
            v = getattr(e, name)
        except Exception:
            continue
        if callable(v):
            continue
        if V.plain_immutable(v):
            d[name] = v
    return d


class Thrower(_rpyc.Service):
    def __init__(self, table):
        self.table = table

    def exposed_boom(self, i):
        raise self.table[i]


def sender_records(instances, tb_on, ver_on):
    """records transmitted by a real serving Connection for each instance"""
    cfg = {"include_local_traceback": tb_on, "include_local_version": ver_on, "propagate_KeyboardInterrupt_locally": False,
           "propagate_SystemExit_locally": False}
    peer = RP.RawPeer(Thrower([e for _, e in instances]), cfg)
    k, a = peer.request(3)
    root = a[1]
    recs = []
    for i in range(len(instances)):
        k, a = peer.request(8, RP.yours(root), RP.val("boom"), RP.val((i,)), RP.val(()))
        recs.append((k, a))
    peer.close()
    return recs


def receive(record, inst_custom, imp_custom):
    """a real requesting Connection gets `record` as the exception answer to its request; returns the raised object"""
    cfg = {"instantiate_custom_exceptions": inst_custom, "import_custom_exceptions": imp_custom}
    peer = RP.RawPeer(_rpyc.VoidService(), cfg)
    peer.on_request = lambda p, seq, args: (R.EXCEPTION, record)
    conn = peer.conn
    try:
        conn.sync_request(consts.HANDLE_PING, "x")
        out = ("returned", None)
    except BaseException as e:   # noqa
        out = ("raised", e)
    left = len(conn._request_callbacks)
    peer.close()
    return out, left


def check_genuine(chunk_index, nchunks):
    env.silence_unraisable()
    viol = []
    n = 0
    instances = make_instances()
    classes = set()
    for tb_on in (True, False):
        for ver_on in (True, False):
            recs = sender_records(instances, tb_on, ver_on)
            for idx, ((label, e), (k, rec)) in enumerate(zip(instances, recs)):
                if idx % nchunks != chunk_index:
                    continue
                cls = type(e)
                classes.add(cls.__name__)
                if k != R.EXCEPTION:
                    viol.append(("sender-did-not-answer-with-exception:%s" % cls.__name__, "%s -> %r" % (label, (k, rec))))
                    continue
                # ---- the record itself (sender side gating)
                if rec != R.EXC_STOP_ITERATION:
                    try:
                        (mod, name), rargs, rattrs, tbtext = rec
                    except Exception:
                        viol.append(("malformed-record:%s" % cls.__name__, repr(rec)[:200]))
                        continue
                    if tb_on:
                        if "Traceback" not in tbtext or "exposed_boom" not in tbtext:
                            viol.append(("traceback-missing-although-allowed", label))
                    else:
                        if "exposed_boom" in tbtext or "Traceback" in tbtext or "File " in tbtext:
                            viol.append(("traceback-disclosed-although-denied", "%s: %r" % (label, tbtext[:80])))
                    rv = dict(rattrs).get("_remote_version")
                    if ver_on and rv != rversion.version_string:
                        viol.append(("version-missing-although-allowed", "%s: %r" % (label, rv)))
                    if not ver_on and rv is not None and rversion.version_string in str(rv):
                        viol.append(("version-disclosed-although-denied", label))
                # ---- receiver side, all four switch settings
                for inst_custom in (False, True):
                    for imp_custom in (False, True):
                        n += 1
                        (how, got), left = receive(rec, inst_custom, imp_custom)
                        sig_cls = cls.__name__
                        if how != "raised":
                            viol.append(("no-exception-raised:%s" % sig_cls, label))
                            continue
                        if left:
                            viol.append(("pending-callback-left-registered:class=%s" % sig_cls, "%s: %d" % (label, left)))
                        if not isinstance(got, cls):
                            viol.append(("class-not-preserved:class=%s:got=%s" % (sig_cls, type(got).__name__),
                                         "%s arrived as %r" % (label, got)))
                            continue
                        try:
                            raise got
                        except cls:
                            pass
                        except BaseException:   # noqa
                            viol.append(("except-clause-does-not-catch:%s" % sig_cls, label))
                        if tuple(got.args) != normalised_args(e):
                            viol.append(("args-differ:class=%s" % sig_cls, "%s: got %r want %r" % (label, got.args, normalised_args(e))))
                        for an, av in public_attrs(e).items():
                            try:
                                gv = getattr(got, an)
                            except Exception as ex:
                                gv = ("<missing>", type(ex).__name__)
                            if not (V.same(gv, av) if V.plain_immutable(gv) else gv == av):
                                viol.append(("attribute-differs:class=%s:attr=%s" % (sig_cls, an), "%s: got %r want %r" % (label, gv, av)))
                        tb = getattr(got, "_remote_tb", None)
                        if rec == R.EXC_STOP_ITERATION:
                            continue        # the published short form of an argument-less StopIteration carries no text at all
                        if tb_on and (tb is None or "exposed_boom" not in str(tb)):
                            viol.append(("remote-traceback-not-attached", label))
                        if not tb_on and tb is not None and "exposed_boom" in str(tb):
                            viol.append(("remote-traceback-leaked", label))
                if len(viol) > 40:
                    return n, viol, classes
    # ---- two hops: an exception that was received and propagates out of a request this side is serving is sent on
    #      (relayed callbacks, rpyc over rpyc): the final requester must still get the same class
    first = []
    recs = sender_records(instances, True, True)
    for idx, ((label, e), (k, rec)) in enumerate(zip(instances, recs)):
        if idx % nchunks != chunk_index or k != R.EXCEPTION:
            continue
        (how, got), left = receive(rec, False, False)
        if how == "raised" and isinstance(got, type(e)) and isinstance(got, BaseException):
            first.append((label, got, type(e)))
    recs2 = sender_records([(lab, g) for lab, g, _ in first], True, True)
    for (label, g, cls), (k, rec) in zip(first, recs2):
        n += 1
        if k != R.EXCEPTION:
            viol.append(("second-hop:sender-did-not-answer-with-exception:%s" % cls.__name__, label))
            continue
        (how, got2), left = receive(rec, False, False)
        if how != "raised" or not isinstance(got2, cls):
            viol.append(("second-hop:class-not-preserved:class=%s:got=%s" % (cls.__name__, type(got2).__name__),
                         "%s relayed once more arrived as %r" % (label, got2)))
        elif tuple(got2.args) != normalised_args(g):
            viol.append(("second-hop:args-differ:class=%s" % cls.__name__, "%s: %r vs %r" % (label, got2.args, g.args)))
    return n, viol, classes


# ------------------------------------------------------------------ custom classes
def check_same_name():
    """two different exception classes with the SAME bare name in different (already imported) modules, arriving one after
    the other in either order: each must be rebuilt as (a subclass of) its own class, with its own bases"""
    import types as _types
    env.silence_unraisable()
    viol = []
    mods = {}
    for mname, base in (("c09_store_errors", LookupError), ("c09_codec_errors", ValueError)):
        m = _types.ModuleType(mname)
        m.Error = type("Error", (base,), {"__module__": mname})
        sys.modules[mname] = m
        mods[mname] = (m.Error, base)
    n = 0
    try:
        for order in (("c09_store_errors", "c09_codec_errors"), ("c09_codec_errors", "c09_store_errors")):
            for mname in order + order:
                n += 1
                cls, base = mods[mname]
                (how, got), left = receive(((mname, "Error"), ("x", 1), (), "remote tb"), True, True)
                if how != "raised" or not isinstance(got, cls) or not isinstance(got, base) or tuple(got.args) != ("x", 1):
                    viol.append(("same-name:class-not-preserved:%s" % base.__name__,
                                 "order %r: %s.Error arrived as %r (mro %r)" % (order, mname, got, [c.__module__ + "." + c.__name__ for c in type(got).__mro__][:4])))
    finally:
        for mname in mods:
            sys.modules.pop(mname, None)
    return n, viol


def check_custom():
    env.silence_unraisable()
    viol = []
    n = 0
    tmp = tempfile.mkdtemp(prefix="c09mod")
    modname = "c09_fresh_mod_%d" % os.getpid()
    with open(os.path.join(tmp, modname + ".py"), "w") as f:
        f.write("IMPORTED = True\nclass FreshError(Exception):\n    pass\n")
    sys.path.insert(0, tmp)
    try:
        cases = [
            ("already-imported", ("checks.c09_exceptions", "CustomError"), True, CustomError),
            ("importable-not-imported", (modname, "FreshError"), False, None),
            ("unknown-module", ("no_such_module_c09", "Nope"), False, None),
            ("non-exception-attr:os.system", ("os", "system"), True, None),
            ("non-exception-attr:builtins.eval", ("builtins", "eval"), True, None),
            ("non-exception-attr:subprocess.Popen", ("subprocess", "Popen"), "subprocess" in sys.modules, None),
            ("class-but-not-exception:builtins.object", ("builtins", "object"), True, None),
        ]
        settings = [(a, b) for a in (False, True) for b in (False, True)]
        for label, (mod, name), imported, real in cases:
            # histories of two connections with every ordered pair of receiver settings: what one connection was
            # allowed to rebuild must not change what a later, stricter connection does
            for first in settings + [None]:
              for (inst_custom, imp_custom) in settings:
                if first is not None:
                    sys.modules.pop(modname, None)
                    receive(((mod, name), ("warm",), (), "tb"), first[0], first[1])
                    if not (first[0] and first[1]):
                        sys.modules.pop(modname, None)
                if True:
                    n += 1
                    if first is None:
                        sys.modules.pop(modname, None)
                    del CONSTRUCTED[:]
                    before = set(sys.modules)
                    already = modname in sys.modules
                    rec = ((mod, name), ("a", 1), (("extra", 5),), "remote tb")
                    (how, got), left = receive(rec, inst_custom, imp_custom)
                    newmods = set(sys.modules) - before
                    hist = "first=%r then inst=%s imp=%s" % (first, inst_custom, imp_custom)
                    if how != "raised":
                        viol.append(("custom:no-exception-raised:%s" % label, hist))
                        continue
                    # importing
                    if newmods and not imp_custom:
                        viol.append(("custom:imported-although-denied:%s" % label, "%s %r" % (hist, sorted(newmods))))
                    if label == "importable-not-imported":
                        should_be_real = inst_custom and (imp_custom or already)
                        is_real = type(got).__mro__[1].__module__ == modname if len(type(got).__mro__) > 1 else False
                        if is_real != should_be_real:
                            viol.append(("custom:fresh-class-%s" % ("rebuilt-although-denied" if is_real else "not-rebuilt-although-allowed"),
                                         "%s got %r" % (hist, type(got).__mro__)))
                    if real is not None:
                        is_real = isinstance(got, real)
                        if is_real != inst_custom:
                            viol.append(("custom:imported-class-%s" % ("rebuilt-although-denied" if is_real else "not-rebuilt-although-allowed"),
                                         "%s got %r" % (hist, type(got))))
                    if "init" in CONSTRUCTED:
                        viol.append(("custom:constructor-__init__-ran:%s" % label, hist))
                    if "new" in CONSTRUCTED and not inst_custom:
                        viol.append(("custom:constructor-__new__-ran-although-denied:%s" % label, hist))
                    if label.startswith(("non-exception", "class-but-not", "unknown")):
                        if not isinstance(got, vinegar.GenericException):
                            viol.append(("custom:non-exception-not-generic:%s" % label, repr(type(got).__mro__)))
                        elif type(got).__name__ != "%s.%s" % (mod, name):
                            viol.append(("custom:generic-stand-in-not-named-after-original", type(got).__name__))
                    if not isinstance(got, BaseException):
                        viol.append(("custom:raised-non-exception", repr(got)))
                    if tuple(got.args) != ("a", 1):
                        viol.append(("custom:args-differ:%s" % label, repr(got.args)))
    finally:
        sys.path.remove(tmp)
        sys.modules.pop(modname, None)
        shutil.rmtree(tmp, ignore_errors=True)
    return n, viol


# ------------------------------------------------------------------ hostile records
def hostile_records():
    atoms = [None, 1, "s", b"b", (), ("builtins", "ValueError"), ("os", "system"), (("a", "b"),), 5.0, ("x",), (1, 2, 3),
             ((), ()), frozenset([1]), ("builtins", 5), (5, "x"), ("", ""), ("builtins", ""), ("builtins", "__import__"),
             ("builtins", "ExceptionGroup"), ("builtins.x", "y"), ("rpyc.core.vinegar", "GenericException")]
    recs = []
    for a in atoms:
        recs.append(a)
        recs.append((a,))
        recs.append((a, a))
        recs.append((a, (), (), "tb", "extra"))
    for cls in atoms:
        for args in (None, 5, (), ("a",), "str", ((1,),)):
            for attrs in (None, 5, (), (("k", 1),), ((1, 2),), (("k",),), "str", (("args", 5),), (("__class__", 1),), (("__dict__", 2),)):
                for tb in ("tb", None, 5, ()):
                    recs.append((cls, args, attrs, tb))
    return recs


def check_hostile(chunk_index, nchunks):
    env.silence_unraisable()
    viol = []
    n = 0
    recs = hostile_records()
    ocs = set()
    for i, rec in enumerate(recs):
        if i % nchunks != chunk_index:
            continue
        for inst_custom, imp_custom in ((False, False), (True, True)):
            n += 1
            del CONSTRUCTED[:]
            before = set(sys.modules)
            (how, got), left = receive(rec, inst_custom, imp_custom)
            ocs.add((how, type(got).__name__ if how == "raised" else None))
            newmods = set(sys.modules) - before
            if newmods and not imp_custom:
                viol.append(("hostile-record-imported-module", "%r -> %r" % (rec, sorted(newmods))))
            if CONSTRUCTED:
                viol.append(("hostile-record-ran-constructor", "%r" % (rec,)))
            if how == "raised" and not isinstance(got, BaseException) and not isinstance(got, str):
                viol.append(("hostile-record-raised-non-exception", repr(got)))
    return n, viol, ocs


def replay(rep):
    env.silence_unraisable()
    part = rep["part"]
    if part.startswith("two-serving-threads"):
        a = two_servers_run(rep["choices"], False, None)[1]["violations"]
        b = two_servers_run(rep["choices"], False, None)[1]["violations"]
    elif part == "custom":
        a, b = check_custom()[1], check_custom()[1]
    elif part == "hostile":
        a, b = check_hostile(0, 1)[1], check_hostile(0, 1)[1]
    else:
        a, b = check_genuine(0, 1)[1], check_genuine(0, 1)[1]
    if sorted(x[0] for x in a) != sorted(x[0] for x in b):
        print("REPLAY-DIVERGENCE")
        return 2
    for x in a[:10]:
        print(x)
    return 1 if a else 0


# ------------------------------------------------------------------ two threads serving one connection
class FailSvc(_rpyc.Service):
    def exposed_fail(self, which, arg):
        raise {"KeyError": KeyError, "ValueError": ValueError}[which](arg)


_watched = [False]


def two_servers_run(choices, want_state, cut_fn):
    """two requests that fail differently are served by two threads of the same side at once (BgServingThread + a serving
    caller, serve_threaded): every schedule must answer each request with ITS OWN exception"""
    from mc import sched as S, canon, trace
    from rpyc.core.protocol import Connection
    if not _watched[0]:
        trace.watch([Connection._dispatch_request, Connection._send_exc, Connection._box_exc])
        _watched[0] = True
    box = {}
    peer = RP.RawPeer(FailSvc(), {})

    def main():
        sch = S.current_sched()
        sch.armed = False
        k, a = peer.request(3)                      # getroot
        root = a[1]
        for seq, (cls, arg) in ((71, ("KeyError", "alpha")), (72, ("ValueError", "beta"))):
            peer.send_payload((R.REQUEST, seq, (8, RP.tup(RP.yours(root), RP.val("fail"), RP.val((cls, arg)), RP.val(())))))
        conn = peer.conn

        def server():
            for _ in range(3):
                try:
                    conn.serve(0.05)
                except EOFError:
                    return
        ts = [S.SimThread(target=server, name="srv%d" % i) for i in (1, 2)]
        sch.armed = True
        for t in ts:
            t.start()
        for t in ts:
            t.join(50)
        sch.armed = False
        got = {}
        while True:
            m = peer.take()
            if m is None:
                break
            got.setdefault(m[1], []).append((m[0], m[2][0] if (m[0] == R.EXCEPTION and isinstance(m[2], tuple)) else m[2], m[2][1] if m[0] == R.EXCEPTION else None))
        box["got"] = got

    def state_fn(sc):
        return canon.state_key(sc, [peer.conn, peer.a, peer.b], canon.DEFAULT_PREFIXES)

    import gc
    gc.disable()
    sch = S.Scheduler(choices, state_fn=state_fn if want_state else None, cut_fn=cut_fn, sync_points=True, io_points=True,
                      horizon=1000, max_steps=100000)
    sch.run(main)
    peer.close()
    if sch.outcome == "cut":
        return sch, {"violations": [], "outcome_key": None}
    viol = []
    got = box.get("got")
    if sch.outcome != "done" or got is None:
        viol.append(("two-servers:scheduler:%s" % sch.outcome, repr(sch.deadlock_info) + repr(sch.threads[0].exc)))
        return sch, {"violations": viol, "outcome_key": sch.outcome}
    want = {71: [(R.EXCEPTION, ("builtins", "KeyError"), ("alpha",))], 72: [(R.EXCEPTION, ("builtins", "ValueError"), ("beta",))]}
    for seq in (71, 72):
        if got.get(seq) != want[seq]:
            viol.append(("two-servers:request-answered-with-another-requests-exception" if len(got.get(seq, ())) == 1 else
                         "two-servers:request-got-%d-responses" % len(got.get(seq, ())),
                         "request %d failed with %r on the peer, the requester received %r" % (seq, want[seq][0][1:], got.get(seq))))
    return sch, {"violations": viol, "outcome_key": tuple(sorted((k, tuple(v)) for k, v in got.items()))}


def main(tier, replay_obj=None):
    if replay_obj is not None:
        return replay(replay_obj)
    env.silence_unraisable()
    insts = make_instances()
    res = runner.Result(PID, "exploration", tier,
                        "every BaseException subclass in builtins (%d classes) x 13 generic argument tuples + class-specific tuples (%d "
                        "constructible instances) x 4 sender switch settings x 4 receiver switch settings; 7 custom-class situations x 4 "
                        "receiver settings; %d hostile records x 2 receiver settings; distinct = classes + outcome classes" % (
                            len(builtin_exception_classes()), len(insts), len(hostile_records())))
    nch = 16
    outs = runner.pmap(check_genuine, [(i, nch) for i in range(nch)])
    classes = set()
    for n, viol, cl in outs:
        res.evaluations += n
        classes |= cl
        for sig, text in viol:
            res.violation(sig, text, {"part": "genuine"})
    for c in classes:
        res.nontrivial("class:" + c)
    res.parts["genuine"] = {"instances": len(insts), "classes": len(classes)}
    n, viol = check_same_name()
    res.evaluations += n
    res.parts["same-name-classes"] = {"cases": n}
    for sig, text in viol:
        res.violation(sig, text, {"part": "custom"})
    n, viol = check_custom()
    res.evaluations += n
    res.parts["custom"] = {"cases": n}
    for sig, text in viol:
        res.violation(sig, text, {"part": "custom"})
    from mc import explore
    # no state cache here: what distinguishes the interesting states (whose exception a thread is about to send) lives in
    # exception objects and tracebacks, which the canonical state abstracts; the space is small enough without it
    ex = explore.ParallelExplorer(two_servers_run, bound=2 if tier == "quick" else 3, max_seconds=150 if tier == "quick" else 900,
                                  stop_on_violation=True, use_cache=False)
    ex.explore()
    res.add_explorer("two-serving-threads/pb", ex)
    res.bounds["two-serving-threads"] = "preemptions<=%s" % ex.stats.bound_completed
    outs = runner.pmap(check_hostile, [(i, nch) for i in range(nch)])
    ocs = set()
    for n, viol, oc in outs:
        res.evaluations += n
        ocs |= oc
        for sig, text in viol:
            res.violation(sig, text, {"part": "hostile"})
    for o in ocs:
        res.nontrivial("hostile:%r" % (o,))
    res.parts["hostile"] = {"records": len(hostile_records()), "outcome_classes": len(ocs)}
    res.add_sample({"instance": "OSError(2, 'm', 'file')", "sender": {"include_local_traceback": False}, "receiver": {"instantiate_custom_exceptions": True}})
    res.add_sample({"hostile_record": [["os", "system"], ["a"], [["__class__", 1]], "tb"]})
    res.assumptions = ["an argument-less StopIteration travels in the published one-integer short form, which has no room for traceback/version text",
                       "KeyboardInterrupt/SystemExit are sent to the peer (propagate_*_locally off) so that they are 'not routed locally'",
                       "__new__ of a custom class may run only when instantiate_custom_exceptions is on; __init__ never"]
    return res.finish()
