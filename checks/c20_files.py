"""C20 -- uploading and downloading files reproduces them byte for byte.

Exhaustive enumeration of: directory trees (depth <= 2, fan-out <= 2, files and empty directories at every
position) x file sizes around multiples of the chunk size {0, 1, c-1, c, c+1, 2c, 2c+1} x chunk sizes
{1, 2, 3, 7, 64000} x filters {none, reject *.x, reject directory 'skip', reject everything, accept only
'keep'} x {upload, download}; single-file and directory roots.  Run over a real classic (SlaveService)
connection pair under the deterministic scheduler, on the real filesystem (per-run temp dir, removed at exit).
Oracle: recursive byte-wise comparison of source and destination restricted to the entries the filter accepts
(and nothing else present).
"""
import itertools
import os
import zlib
import shutil
import tempfile

from mc import env
rpyc = env.install_sim()
from mc import sched as S, pair, runner                          # noqa: E402
import rpyc as _rpyc                                              # noqa: E402
from rpyc.core.channel import Channel                             # noqa: E402
from rpyc.core.service import SlaveService, MasterService         # noqa: E402
from rpyc.utils import classic                                    # noqa: E402

PID = "C20"
CHUNKS = (1, 2, 3, 7, 64000)
NAMES = ("a.x", "keep", "skip", "b.bin")

FILTERS = {
    "none": None,
    "reject-x": lambda fn: not fn.endswith(".x"),
    "reject-skip": lambda fn: fn != "skip",
    "reject-all": lambda fn: False,
    "only-keep": lambda fn: fn == "keep",
}


def sizes_for(c):
    return sorted(set(s for s in (0, 1, c - 1, c, c + 1, 2 * c, 2 * c + 1) if s >= 0))


CONTENT_KIND = ["pattern"]


def content(n, salt):
    kind = CONTENT_KIND[0]
    if kind == "zeros":
        return b"\x00" * n
    base = bytes((i * 31 + salt * 7 + (i >> 8)) & 0xff for i in range(n)) if n < 5000 else (bytes(range(256)) * (n // 256 + 1))[:n]
    if kind == "zero-tail" and n:
        k = max(1, n // 2)
        return base[:n - k] + b"\x00" * k
    if kind == "newlines" and n:
        return (b"a\r\n\n\x1a" * n)[:n]
    return base


def tree_shapes():
    """nested tuples: 'F' = file, () = empty dir, (child, ...) = dir.  depth <= 2, fan-out <= 2"""
    leaves = ["F", ()]
    level1 = [()] + [(a,) for a in leaves] + [(a, b) for a in leaves for b in leaves]
    kids2 = leaves + [d for d in level1 if d != ()]
    level2 = [(a,) for a in kids2] + [(a, b) for a in kids2 for b in kids2]
    out = []
    for t in level1 + level2:
        if t not in out:
            out.append(t)
    return out


def build(path, shape, sizes, counter, names=NAMES, level=0):
    """materialise shape under path; returns model {relpath: bytes | None(dir)}"""
    model = {}
    if shape == "F":
        n = sizes[counter[0] % len(sizes)]
        counter[0] += 1
        data = content(n, counter[0])
        with open(path, "wb") as f:
            f.write(data)
        return {"": data}
    os.makedirs(path)
    model[""] = None
    for i, ch in enumerate(shape):
        # the same names at every level so that filters bite in subdirectories too
        nm = names[(i + level + counter[1]) % len(names)]
        sub = build(os.path.join(path, nm), ch, sizes, counter, names, level + 1)
        for k, v in sub.items():
            model[nm if k == "" else nm + "/" + k] = v
    return model


def expected(model, flt):
    if flt is None:
        return dict(model)
    out = {}
    for rel, v in model.items():
        if rel == "":
            out[rel] = v
            continue
        parts = rel.split("/")
        if all(flt(p) for p in parts):
            out[rel] = v
    return out


def scan(path):
    if not os.path.exists(path):
        return None
    if os.path.isfile(path):
        with open(path, "rb") as f:
            return {"": f.read()}
    out = {"": None}
    for root, dirs, files in os.walk(path):
        rel = os.path.relpath(root, path)
        rel = "" if rel == "." else rel.replace(os.sep, "/")
        for d in dirs:
            out[(rel + "/" if rel else "") + d] = None
        for fn in files:
            with open(os.path.join(root, fn), "rb") as f:
                out[(rel + "/" if rel else "") + fn] = f.read()
    return out


class _LocalPath(object):
    """the LOCAL machine's view of the filesystem: it has nothing under the peer's root (the two sides of a transfer do not
    share a filesystem; here they live in one process, so the separation is enforced on the names the library itself uses)"""

    def __init__(self, remote_root):
        self.remote_root = remote_root

    def __getattr__(self, name):
        return getattr(os.path, name)

    def _foreign(self, p):
        return isinstance(p, str) and os.path.abspath(p).startswith(self.remote_root)

    def isfile(self, p):
        return False if self._foreign(p) else os.path.isfile(p)

    def isdir(self, p):
        return False if self._foreign(p) else os.path.isdir(p)

    def exists(self, p):
        return False if self._foreign(p) else os.path.exists(p)


class _LocalOS(object):
    def __init__(self, remote_root):
        self.path = _LocalPath(remote_root)
        self._root = remote_root

    def __getattr__(self, name):
        return getattr(os, name)

    def listdir(self, p):
        if os.path.abspath(p).startswith(self._root):
            raise FileNotFoundError(2, "No such file or directory (on the local machine)", p)
        return os.listdir(p)


def run_cases(cases):
    """cases: (direction, shape, chunk, filter name, size rotation offset).  One connection pair for the whole batch."""
    env.silence_unraisable()
    viol = []
    tmp = tempfile.mkdtemp(prefix="c20_")
    w = pair.World(connect_now=False)
    done = [0]

    def main():
        w.sconn = SlaveService()._connect(Channel(w.b), {})
        w.start_server()
        w.cconn = MasterService()._connect(Channel(w.a), {})
        conn = w.cconn
        for ci, case in enumerate(cases):
            direction, shape, chunk, fname, rot = case[:5]
            CONTENT_KIND[0] = case[5] if len(case) > 5 else "pattern"
            # the source of an upload and the destination of a download are local; the other end is the peer's
            lroot, rroot = os.path.join(tmp, "local"), os.path.join(tmp, "peer")
            os.makedirs(lroot, exist_ok=True)
            os.makedirs(rroot, exist_ok=True)
            classic.os = _LocalOS(rroot)
            src = os.path.join(lroot if direction == "upload" else rroot, "s%d" % ci)
            dst = os.path.join(rroot if direction == "upload" else lroot, "d%d" % ci)
            sz = sizes_for(chunk)
            sz = sz[rot % len(sz):] + sz[:rot % len(sz)]
            model = build(src, shape, sz, [0, rot])
            flt = FILTERS[fname]
            if len(case) > 6 and case[6] == "over-longer":
                # the destination already exists from an earlier transfer whose files were LONGER and different
                keep = CONTENT_KIND[0]
                CONTENT_KIND[0] = "pattern"
                build(dst, shape, [s_ + 41 for s_ in sz], [3, rot])
                CONTENT_KIND[0] = keep
            try:
                if direction == "upload":
                    classic.upload(conn, src, dst, filter=flt, chunk_size=chunk)
                else:
                    classic.download(conn, src, dst, filter=flt, chunk_size=chunk)
            except S.SimAbort:
                raise
            except Exception as ex:
                viol.append(("transfer-raised:%s:%s" % (direction, type(ex).__name__), "%r: %r" % (cases[ci], ex)))
                continue
            want = expected(model, flt)
            got = scan(dst)
            if got == want and len(case) > 6 and case[6] == "twice":
                # the same source transferred a second time in the same process, to a second destination: same result
                dst2 = dst + "_again"
                try:
                    if direction == "upload":
                        classic.upload(conn, src, dst2, filter=flt, chunk_size=chunk)
                    else:
                        classic.download(conn, src, dst2, filter=flt, chunk_size=chunk)
                    got = scan(dst2)
                except S.SimAbort:
                    raise
                except Exception as ex:    # noqa
                    viol.append(("transfer-raised:%s:%s" % (direction, type(ex).__name__), "%r (second time): %r" % (cases[ci], ex)))
                    continue
                finally:
                    shutil.rmtree(dst2, ignore_errors=True) if os.path.isdir(dst2) else os.path.exists(dst2) and os.remove(dst2)
            if got != want:
                if got is None:
                    kind = "nothing-transferred"
                else:
                    missing = sorted(set(want) - set(got))
                    extra = sorted(set(got) - set(want))
                    diff = sorted(k for k in want if k in got and want[k] != got[k])
                    kind = "missing-entries" if missing else ("rejected-entry-transferred" if extra else "content-differs")
                    if diff:
                        k0 = diff[0]
                        kind = "content-differs:got=%d-bytes:want=%d-bytes" % (len(got[k0] or b""), len(want[k0] or b""))
                viol.append(("%s:%s:filter=%s" % (kind.split(":")[0], direction, fname),
                             "%r: %s" % (cases[ci], kind if got is None else (kind, sorted(set(want) ^ set(got))[:4]))))
            done[0] += 1
            shutil.rmtree(src, ignore_errors=True) if os.path.isdir(src) else os.path.exists(src) and os.remove(src)
            shutil.rmtree(dst, ignore_errors=True) if os.path.isdir(dst) else os.path.exists(dst) and os.remove(dst)
            if len(viol) > 5:
                break

    try:
        sch, _, exc = pair.run(main, horizon=10 ** 7, world=w, max_steps=10 ** 8)
        if exc is not None or sch.outcome != "done":
            viol.append(("harness:%s" % sch.outcome, repr(exc)))
    finally:
        shutil.rmtree(tmp, ignore_errors=True)
    return done[0], viol


def all_cases(tier):
    cases = []
    shapes = tree_shapes()
    for direction in ("upload", "download"):
        # single-file roots: every size x every chunk
        for c in CHUNKS:
            for rot in range(len(sizes_for(c))):
                cases.append((direction, "F", c, "none", rot))
        # trees x chunks x filters
        for sh in shapes:
            for c in CHUNKS:
                if c == 64000 and tier == "quick" and shapes.index(sh) % 4:
                    continue
                for fname in FILTERS:
                    rots = range(len(sizes_for(c))) if tier == "thorough" else (shapes.index(sh) % 7,)
                    for rot in rots:
                        cases.append((direction, sh, c, fname, rot))
    # file contents: a byte pattern, all zeros, a zero tail (sparse-file shortcuts), text-mode traps
    out = []
    for c in cases:
        for kind in ("pattern", "zeros", "zero-tail", "newlines"):
            if kind != "pattern" and tier == "quick" and c[1] != "F" and zlib.crc32(repr((c[1], c[2])).encode()) % 3:
                continue
            out.append(c + (kind,))
            # transfers onto an existing destination (a second upload / download of a tree whose files shrank)
            if c[3] == "none" and kind in ("pattern", "zeros") and (tier == "thorough" or c[1] == "F" or shapes.index(c[1]) % 3 == 0):
                out.append(c + (kind, "over-longer"))
            # the same source transferred twice in one process
            if c[3] in ("none", "only-keep") and kind == "pattern" and (tier == "thorough" or c[1] == "F" or shapes.index(c[1]) % 3 == 1):
                out.append(c + (kind, "twice"))
    return out


def chunks(xs, n):
    return [xs[i:i + n] for i in range(0, len(xs), n)]


def replay(rep):
    case = rep["case"]

    def tup(x):
        return tuple(tup(i) for i in x) if isinstance(x, list) else x
    c = (case[0], tup(case[1]), case[2], case[3], case[4]) + tuple(case[5:6])
    a, b = run_cases([c])[1], run_cases([c])[1]
    if [x[0] for x in a] != [x[0] for x in b]:
        print("REPLAY-DIVERGENCE")
        return 2
    print("replayed %r -> %r" % (c, a))
    return 1 if a else 0


def main(tier, replay_obj=None):
    if replay_obj is not None:
        return replay(replay_obj)
    env.silence_unraisable()
    res = runner.Result(PID, "exploration", tier,
                        "every directory tree of depth <= 2 and fan-out <= 2 (files and empty directories at every position, %d shapes) x "
                        "chunk sizes {1,2,3,7,64000} x 5 filters x {upload, download}, file sizes rotating through {0,1,c-1,c,c+1,2c,2c+1} "
                        "(%s); single-file roots with every size x chunk; distinct = distinct cases" % (
                            len(tree_shapes()), "every rotation" if tier == "thorough" else "one rotation per shape"))
    cases = all_cases(tier)
    outs = runner.pmap(run_cases, [(c,) for c in chunks(cases, max(8, len(cases) // 64))])
    n = 0
    for (nn, viol), cs in zip(outs, chunks(cases, max(8, len(cases) // 64))):
        n += nn
        for sig, text in viol:
            import ast
            try:
                case = ast.literal_eval(text.split(": ")[0])
            except Exception:
                case = cs[0]
            res.violation(sig, text, {"case": list(case)})
    res.evaluations = n
    res.distinct_count_extra = n
    res.parts["cases"] = {"cases": len(cases), "completed": n, "tree_shapes": len(tree_shapes())}
    res.add_sample({"case": ["download", ["F", []], 3, "reject-x", 2]})
    res.add_sample({"case": ["upload", [["F", "F"], []], 1, "only-keep", 0]})
    if n != len(cases):
        res.caps.append("stopped early after violations")
    res.assumptions = ["a filter sees the entry's base name at every level; a rejected directory excludes its subtree; the root is never filtered",
                       "real filesystem under a per-run temporary directory"]
    return res.finish()
