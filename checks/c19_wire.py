"""C19 -- bytes on the wire are those of the published 5.x protocol.

Oracle: an independently written codec + peer (mc/refcodec.py, from DESIGN.md Appendix A).
 (i)   every grammar value: brine.dump(v) == ref.encode(v) byte for byte, brine.load(ref.encode(v)) == v, and
       ref.decode(brine.dump(v)) == v;
 (ii)  every packet-size class x compression on/off: bytes written by Channel.send == ref.frame(payload)
       (header, flag only above the threshold, zlib level 1, trailer) and Channel.recv accepts reference frames;
 (iii) conversations: the reference peer drives a real Connection through all 20 handler numbers and every
       boxing label using only published numbers and checks the meaning; a real Connection (proxy operations)
       drives the reference peer, which checks every number and layout it receives.
"""
import pickle
import zlib

from mc import env
rpyc = env.install_sim()
from mc import values as V, runner, refcodec as R, simnet, pair, sched as S      # noqa: E402
import rpyc as _rpyc                                                              # noqa: E402
from rpyc.core import brine, consts                                               # noqa: E402
from rpyc.core.channel import Channel                                             # noqa: E402
from rpyc.core.protocol import Connection                                         # noqa: E402
from rpyc.utils.helpers import buffiter                                           # noqa: E402

PID = "C19"


# ------------------------------------------------------------------ (i) values
def value_cases(tier):
    vals = []
    for v in V.atoms(big=True) + V.arity_values() + V.composites(2 if tier == "quick" else 3):
        vals.append(v)
    return vals


def has_surrogate(v):
    t = type(v)
    if t is str:
        try:
            v.encode("utf-8")
            return False
        except UnicodeEncodeError:
            return True
    if t in (tuple, frozenset):
        return any(has_surrogate(x) for x in v)
    if t is slice:
        return any(has_surrogate(x) for x in (v.start, v.stop, v.step))
    return False


def check_values(tier):
    viol = []
    n = 0
    skipped = 0
    classes = set()
    for v in value_cases(tier):
        if not V.plain_immutable(v):
            continue
        if has_surrogate(v):
            skipped += 1        # the published format (UTF-8 text) has no encoding for lone surrogates
            continue
        n += 1
        ref = R.encode(v)
        classes.add((type(v).__name__, ref[:1]))
        try:
            got = brine.dump(v)
        except Exception as ex:
            viol.append(("dump-raised:%s" % type(ex).__name__, "%s: %r" % (V.short(v), ex)))
            continue
        def ref_reads(data):
            try:
                return R.decode(data)
            except R.RefCodecError:
                return R      # never equal to a value: the reference decoder rejects these bytes
        if type(v) is frozenset and len(v) > 1:
            # member order is the sender's choice: compare as the multiset of member encodings + header
            ok = V.same(ref_reads(got), v) and got[:1] == ref[:1] and len(got) == len(ref)
        elif _has_fset(v):
            ok = V.same(ref_reads(got), v) and len(got) == len(ref)
        else:
            ok = got == ref
        if not ok:
            viol.append(("encoding-differs-from-published-format:%s:tag=%s" % (type(v).__name__, ref[:1].hex()),
                         "%s: rpyc %s.. reference %s.." % (V.short(v), got[:24].hex(), ref[:24].hex())))
            continue
        try:
            back = brine.load(ref)
        except Exception as ex:
            viol.append(("reference-encoding-rejected:%s" % type(ex).__name__, "%s: %r" % (V.short(v), ex)))
            continue
        if not V.same(back, v):
            viol.append(("reference-encoding-means-something-else:%s" % type(v).__name__, "%s -> %s" % (V.short(v), V.short(back))))
    # non-shortest but well-formed reference forms must still be accepted by a conforming decoder? The published
    # encoders always emit the shortest form; decoders accept any form: check a few long forms decode to the same value.
    long_forms = [(b"\x0e\x01a", b"a"), (b"\x0f\x00\x00\x00\x02ab", b"ab"), (b"\x14\x01\x50", (0,)), (b"\x15\x00\x00\x00\x00", ()),
                  (b"\x16\x011", 1), (b"\x08\x0e\x01a", "a"), (b"\x0e\x00", b"")]
    for data, want in long_forms:
        n += 1
        try:
            got = brine.load(data)
        except Exception as ex:
            viol.append(("long-form-rejected:%s" % data[:1].hex(), "%r: %r" % (data, ex)))
            continue
        if not V.same(got, want):
            viol.append(("long-form-decodes-wrong:%s" % data[:1].hex(), "%r -> %r" % (data, got)))
    return n, viol, len(classes), skipped


def _has_fset(v):
    t = type(v)
    if t is frozenset:
        return True
    if t is tuple:
        return any(_has_fset(x) for x in v)
    if t is slice:
        return any(_has_fset(x) for x in (v.start, v.stop, v.step))
    return False


# ------------------------------------------------------------------ (ii) packets
class CapStream(object):
    MAX_IO_CHUNK = 64000

    def __init__(self):
        self.w = []

    def write(self, data):
        self.w.append(bytes(data))


class FeedStream(object):
    MAX_IO_CHUNK = 64000

    def __init__(self, data):
        self.d = data
        self.i = 0

    def read(self, n):
        if self.i + n > len(self.d):
            raise EOFError()
        b = self.d[self.i:self.i + n]
        self.i += n
        return b


SIZES = (0, 1, 2, 5, 2999, 3000, 3001, 3002, 63993, 63994, 63995, 64000, 64001, 128001, 200000)


def payload(n, kind):
    if kind == "zeros":
        return b"\x00" * n
    if kind == "pattern":
        return (b"abcdefghij" * (n // 10 + 1))[:n]
    if kind == "newlines":
        return b"\n" * n                 # the terminator's own byte as payload
    # incompressible: fixed LCG stream
    out = bytearray()
    x = 12345
    while len(out) < n:
        x = (x * 1103515245 + 12345) & 0x7fffffff
        out += x.to_bytes(4, "big")[1:]
    return bytes(out[:n])


def check_packets():
    viol = []
    n = 0
    classes = set()
    for size in SIZES:
        for kind in ("zeros", "pattern", "random", "newlines"):
            p = payload(size, kind)
            for comp in (True, False):
                n += 1
                cs = CapStream()
                Channel(cs, compress=comp).send(p)
                got = b"".join(cs.w)
                want = R.frame(p, compress=comp)
                classes.add((size > 3000, comp, len(cs.w)))
                if got != want:
                    what = "header" if got[:5] != want[:5] else ("trailer" if got[-1:] != want[-1:] else "body")
                    viol.append(("packet-differs:%s:size=%d:compress=%s" % (what, size, comp),
                                 "size %d %s compress=%s: rpyc header %s, reference header %s, lengths %d/%d" % (
                                     size, kind, comp, got[:5].hex(), want[:5].hex(), len(got), len(want))))
                    continue
                # any receiver (compress on or off) accepts the reference frame
                for rcomp in (True, False):
                    try:
                        back = Channel(FeedStream(want), compress=rcomp).recv()
                    except Exception as ex:
                        viol.append(("reference-packet-rejected:%s" % type(ex).__name__, "size %d compress=%s recv-compress=%s" % (size, comp, rcomp)))
                        continue
                    if back != p:
                        viol.append(("reference-packet-decodes-wrong:size=%d" % size, "compress=%s recv-compress=%s: %d bytes" % (comp, rcomp, len(back))))
    # a compressed reference frame below the threshold (legal for other senders) must also be accepted
    p = b"hello" * 10
    fr = b"".join([(len(zlib.compress(p, 1))).to_bytes(4, "big"), b"\x01", zlib.compress(p, 1), b"\n"])
    n += 1
    if Channel(FeedStream(fr), compress=False).recv() != p:
        viol.append(("compressed-small-packet-rejected", ""))
    return n, viol, len(classes)


def check_socket_level():
    """bytes that actually reach the socket when the kernel accepts fewer bytes than offered (every placement of one or
    two short send() answers): still exactly the reference packet"""
    from mc import fragio as F
    from rpyc.core.stream import SocketStream
    viol = []
    n = [0]
    for size in (0, 1, 40, 3001, 63995, 64001, 130000):
        for kind in ("pattern", "random"):
            p = payload(size, kind)
            for comp in (True, False):
                want = R.frame(p, compress=comp)

                def run(ch):
                    wire = F.Wire()
                    sock = F.FragSocket(F.Wire(), wire, ch, write_menu=("full", "one", "half", "allbutone"))   # short sends only
                    try:
                        Channel(SocketStream(sock), compress=comp).send(p)
                    except Exception as ex:     # noqa
                        return ("raised", type(ex).__name__)
                    return ("ok", bytes(wire.data))

                def on_result(ch, obs):
                    n[0] += 1
                    if obs != ("ok", want) and len(viol) < 4:
                        got = obs[1] if obs[0] == "ok" else b""
                        viol.append(("socket-level-bytes-differ:size=%d:%s" % (size, "short" if len(got) < len(want) else "other"),
                                     "size %d compress=%s short-send pattern %r: %d bytes on the wire, reference %d (%r)" % (
                                         size, comp, [c for _, c, _ in ch.trace if c], len(got), len(want), obs[0])))
                F.explore(run, 2 if size < 100 else 1, on_result=on_result)
    return n[0], viol


# ------------------------------------------------------------------ (iii) conversations
class Box(object):
    """an object with everything the 20 handlers need"""

    def __init__(self):
        self.x = 5
        self.y = 6
        self.entered = 0
        self.exited = None
        self.items = [10, 11, 12, 13]
        self.last = None

    def __call__(self, *a, **k):
        self.last = ("call", a, tuple(sorted(k.items())))
        return ("called", a, tuple(sorted(k.items())))

    def meth(self, a, b=0):
        return a * 10 + b

    def ident(self, v):
        self.last = v
        return v

    def __repr__(self):
        return "<BOX>"

    def __str__(self):
        return "box-str"

    def __eq__(self, o):
        return o == 42

    def __lt__(self, o):
        return o == 43

    def __hash__(self):
        return 1234

    def __iter__(self):
        return iter(self.items)

    def __getitem__(self, i):
        return self.items[i]

    def __enter__(self):
        self.entered += 1
        return 7

    def __exit__(self, t, v, tb):
        self.exited = (t if t is None else type(t).__name__)
        return False

    def __getslice__(self, a, b):
        return ("slice", a, b)


class Svc(_rpyc.Service):
    def __init__(self):
        self.box = Box()

    def exposed_get_box(self):
        return self.box


ALLOW = dict(allow_all_attrs=True, allow_setattr=True, allow_delattr=True, allow_pickle=True, allow_public_attrs=True)


class RefPeer(object):
    """speaks only refcodec over the raw stream; the real Connection is served in the same thread"""

    def __init__(self):
        self.a, self.b = simnet.SimStream.pair("real", "ref")
        self.svc = Svc()
        self.conn = self.svc._connect(Channel(self.a), ALLOW)
        self.seq = 100
        self.buf = bytearray()
        self.incoming = []

    def take(self):
        self.buf += self.b.inbox
        del self.b.inbox[:]
        r = R.unframe(self.buf)
        if r is None:
            return None
        payload, rest = r
        self.buf = bytearray(rest)
        return R.decode(payload)

    def request(self, handler, *boxed):
        self.seq += 1
        self.b.write(R.message(R.REQUEST, self.seq, (handler, (R.L_TUPLE, tuple(boxed)))))
        try:
            self.conn.serve(0)
        except EOFError:
            return ("eof", None)
        while True:
            m = self.take()
            if m is None:
                return ("none", None)
            kind, seq, args = m
            if kind == R.REQUEST:
                self.incoming.append(m)      # e.g. a release notice (15) sent by the real side meanwhile
                continue
            if seq != self.seq:
                return ("wrong-seq", (seq, self.seq))
            return (kind, args)


def val(v):
    return (R.L_VALUE, v)


def mine(idp):
    return (R.L_LOCAL_REF, idp)          # "your object": an id the real side lent to me


def theirs(idp):
    return (R.L_REMOTE_REF, idp)         # "my object": a reference to an object of mine


def conversation_ref_drives_real():
    """returns (n checks, violations)"""
    viol = []
    n = [0]

    def expect(name, got, want):
        n[0] += 1
        if got != want:
            viol.append(("handler-means-something-else:%s" % name, "%s: got %r, want %r" % (name, got, want)))

    p = RefPeer()
    box = p.svc.box
    # 3 getroot -> reference to the service
    k, a = p.request(3)
    expect("getroot(3):kind", k, R.REPLY)
    expect("getroot(3):label", a[0], R.L_REMOTE_REF)
    root = a[1]
    expect("getroot(3):id_pack-shape", (type(root), len(root), type(root[0]), root[2] == id(p.svc)), (tuple, 3, str, True))
    # 8 callattr(root, 'get_box', (), ()) -> reference to the box
    k, a = p.request(8, mine(root), val("get_box"), val(()), val(()))
    expect("callattr(8):kind", k, R.REPLY)
    expect("callattr(8):label", a[0], R.L_REMOTE_REF)
    b = a[1]
    expect("callattr(8):target", b[2], id(box))
    # 1 ping
    expect("ping(1)", p.request(1, val("data")), (R.REPLY, val("data")))
    # 4 getattr
    expect("getattr(4)", p.request(4, mine(b), val("x")), (R.REPLY, val(5)))
    # 6 setattr
    expect("setattr(6)", p.request(6, mine(b), val("x"), val(77)), (R.REPLY, val(None)))
    expect("setattr(6):effect", box.x, 77)
    # 5 delattr
    expect("delattr(5)", p.request(5, mine(b), val("y")), (R.REPLY, val(None)))
    expect("delattr(5):effect", hasattr(box, "y"), False)
    # 7 call with positional and keyword arguments (kwargs travel as a tuple of pairs)
    expect("call(7)", p.request(7, mine(b), val((1, 2)), val((("k", 3),))), (R.REPLY, val(("called", (1, 2), (("k", 3),)))))
    # 8 callattr with kwargs
    expect("callattr(8):kwargs", p.request(8, mine(b), val("meth"), val((4,)), val((("b", 2),))), (R.REPLY, val(42)))
    # 9 repr, 10 str
    expect("repr(9)", p.request(9, mine(b)), (R.REPLY, val("<BOX>")))
    expect("str(10)", p.request(10, mine(b)), (R.REPLY, val("box-str")))
    # 11 cmp(obj, other, opname)
    expect("cmp(11):eq", p.request(11, mine(b), val(42), val("__eq__")), (R.REPLY, val(True)))
    expect("cmp(11):lt", p.request(11, mine(b), val(42), val("__lt__")), (R.REPLY, val(False)))
    # 12 hash
    expect("hash(12)", p.request(12, mine(b)), (R.REPLY, val(1234)))
    # 13 dir -> tuple of names
    k, a = p.request(13, mine(b))
    expect("dir(13)", (k, a[0], "meth" in a[1], type(a[1])), (R.REPLY, R.L_VALUE, True, tuple))
    # 14 pickle(obj, proto)
    k, a = p.request(8, mine(b), val("__getitem__"), val((slice(0, 2),)), val(()))
    lst = a[1] if a[0] == R.L_REMOTE_REF else None
    k, a = p.request(14, mine(lst), val(2))
    expect("pickle(14)", (k, a[0], pickle.loads(a[1]) if a[0] == R.L_VALUE else None), (R.REPLY, R.L_VALUE, [10, 11]))
    # 16 inspect(id_pack) -> ((name, doc), ...)
    k, a = p.request(16, val(b))
    names = dict(a[1]) if (k == R.REPLY and a[0] == R.L_VALUE) else {}
    expect("inspect(16)", (k, "meth" in names, "ident" in names), (R.REPLY, True, True))
    # 17 buffiter(iterator, count)
    k, a = p.request(8, mine(b), val("__iter__"), val(()), val(()))
    it = a[1]
    expect("buffiter(17)", p.request(17, mine(it), val(3)), (R.REPLY, val((10, 11, 12))))
    expect("buffiter(17):rest", p.request(17, mine(it), val(3)), (R.REPLY, val((13,))))
    # StopIteration travels as the integer 1 in an exception message
    k, a = p.request(8, mine(it), val("__next__"), val(()), val(()))
    expect("exception(3):stopiteration", (k, a), (R.EXCEPTION, R.EXC_STOP_ITERATION))
    # a generic exception: ((module, name), args, attrs, traceback text)
    k, a = p.request(4, mine(b), val("nope"))
    expect("exception(3):layout", (k, type(a), len(a), a[0], type(a[1]), type(a[2]), type(a[3])),
           (R.EXCEPTION, tuple, 4, ("builtins", "AttributeError"), tuple, tuple, str))
    # 18 oldslicing(obj, attempt, fallback, start, stop, args): first tries obj.<attempt>(slice(start, stop))
    expect("oldslicing(18)", p.request(18, mine(lst), val("__getitem__"), val("__getslice__"), val(0), val(1), val(())),
           None) if False else None
    k, a = p.request(18, mine(b), val("__getitem__"), val("__getslice__"), val(1), val(3), val(()))
    n[0] += 1
    if k != R.REPLY or a[0] != R.L_REMOTE_REF:
        viol.append(("handler-means-something-else:oldslicing(18)", "got %r" % ((k, a),)))
    else:
        expect("oldslicing(18):value", p.request(9, mine(a[1])), (R.REPLY, val("[11, 12]")))
    # 19 ctxexit(obj, exc)
    expect("ctxexit(19)", p.request(19, mine(b), val(None)), (R.REPLY, val(False)))
    expect("ctxexit(19):effect", box.exited, None)
    # 20 instancecheck(cls_ref, other_id_pack)
    k, a = p.request(4, mine(lst), val("__class__"))
    lcls = a[1]
    k, a = p.request(20, mine(lcls), val(("builtins.list", 1, 2)))
    expect("instancecheck(20)", (k, a), (R.REPLY, val(True)))
    # label 2 (tuple of boxed) and label 4 ("my object") inside arguments; echoed back as label 3 ("your object")
    myobj = ("builtins.list", 111, 222)
    k, a = p.request(8, mine(b), val("ident"), (R.L_TUPLE, ((R.L_TUPLE, (val(1), theirs(myobj))),)), val(()))
    expect("labels(2,4->3)", (k, a), (R.REPLY, (R.L_TUPLE, (val(1), (R.L_LOCAL_REF, myobj)))))
    # dropping the proxy on the real side sends request 15 (del) with the count; take it from the wire
    box.last = None
    import gc as _gc
    _gc.collect()
    m = p.take() or (p.incoming[-1] if p.incoming else None)
    dels = [x for x in p.incoming + ([m] if m else []) if x[0] == R.REQUEST and x[2][0] == 15 and x[2][1][1][0] == (R.L_LOCAL_REF, myobj)]
    m = dels[-1] if dels else m
    n[0] += 1
    if m is None or m[0] != R.REQUEST or m[2][0] != 15:
        viol.append(("release-notice-not-handler-15", "got %r" % (m,)))
    else:
        expect("del(15):layout", m[2][1], (R.L_TUPLE, ((R.L_LOCAL_REF, myobj), val(1))))
    # 15 del(obj, count) releases what was lent to me
    expect("del(15)", p.request(15, mine(it), val(1)), (R.REPLY, val(None)))
    k, a = p.request(9, mine(it))
    expect("del(15):effect", k, R.EXCEPTION)
    # unknown message kind / unknown label are refused, not obeyed
    # 2 close: ends the connection
    r = p.request(2)
    n[0] += 1
    if not p.conn.closed:
        viol.append(("handler-means-something-else:close(2)", "connection still open after handler 2: %r" % (r,)))
    return n[0], viol


class ScriptedPeer(object):
    """reference peer that answers a real Connection and checks every number/layout it receives"""

    def __init__(self, w, viol):
        self.w = w
        self.viol = viol
        self.buf = bytearray()
        self.log = []
        self.root = ("refpeer.Root", 555, 666)      # not a built-in name: the real side must ask for the method list (16)
        self.fn = ("builtins.function", 777, 888)
        self.it = ("builtins.list_iterator", 999, 1000)
        self.stop = False

    def run(self):
        s = S.current_sched()
        b = self.w.b
        while not self.stop:
            s.block(lambda: bool(b.inbox) or self.stop or b.eof, None, "refpeer.wait")
            if self.stop or (b.eof and not b.inbox):
                return
            self.buf += b.inbox
            del b.inbox[:]
            while True:
                r = R.unframe(self.buf)
                if r is None:
                    break
                payload, rest = r
                self.buf = bytearray(rest)
                kind, seq, args = R.decode(payload)
                if kind != R.REQUEST:
                    self.viol.append(("unexpected-message-kind:%r" % (kind,), repr(args)[:100]))
                    continue
                handler, boxed = args
                self.log.append((handler, boxed))
                rep = self.answer(handler, boxed)
                if rep is not None:
                    b.write(R.message(rep[0], seq, rep[1]))

    def answer(self, h, boxed):
        Hn = R.H
        if h == Hn["getroot"]:
            return (R.REPLY, (R.L_REMOTE_REF, self.root))
        if h == Hn["inspect"]:
            return (R.REPLY, val(tuple((m, "doc of " + m) for m in ("__enter__", "__iter__", "__getitem__", "__len__", "frob"))))
        if h == Hn["close"]:
            return (R.REPLY, val(None))
        if h == Hn["del_"]:
            return (R.REPLY, val(None))
        if h == Hn["getattr"]:
            name = boxed[1][1][1] if boxed[0] == R.L_TUPLE else None
            if name == "fn":
                return (R.REPLY, (R.L_REMOTE_REF, self.fn))
            if name == "__class__":
                return (R.REPLY, val(None))
            return (R.REPLY, val("attr:%s" % name))
        if h == Hn["callattr"]:
            name = boxed[1][1][1]
            if name == "__iter__":
                return (R.REPLY, (R.L_REMOTE_REF, self.it))
            if name == "__enter__":
                return (R.REPLY, val("entered"))
            return (R.REPLY, val(("callattr", name)))
        if h == Hn["buffiter"]:
            cnt = boxed[1][1][1]
            self.served = getattr(self, "served", 0)
            items = tuple(range(self.served, min(5, self.served + cnt)))
            self.served += len(items)
            return (R.REPLY, val(items))
        if h == Hn["hash"]:
            return (R.REPLY, val(4321))
        if h == Hn["pickle"]:
            return (R.REPLY, val(pickle.dumps([1, 2], 2)))
        if h == Hn["dir"]:
            return (R.REPLY, val(("a", "b")))
        if h == Hn["cmp"]:
            return (R.REPLY, val(True))
        if h == Hn["repr"]:
            return (R.REPLY, val("<ref-repr>"))
        if h == Hn["str"]:
            return (R.REPLY, val("ref-str"))
        if h == Hn["ctxexit"]:
            return (R.REPLY, val(False))
        if h == Hn["ping"]:
            return (R.REPLY, boxed[1][0] if boxed[0] == R.L_TUPLE else (R.L_VALUE, boxed[1][0]))
        return (R.REPLY, val(("h", h)))


def conversation_real_drives_ref():
    viol = []
    box = {}
    w = pair.World(connect_now=False)
    w.cconn = _rpyc.VoidService()._connect(Channel(w.a), {})
    peer = ScriptedPeer(w, viol)

    def args_of(i):
        return peer.log[i]

    def main():
        s = S.current_sched()
        s.spawn(peer.run, "refpeer")
        c = w.cconn
        r = c.root
        obs = []
        obs.append(("getattr", r.foo))
        r.bar = 5
        del r.baz
        obs.append(("callattr", r[1]))
        obs.append(("repr", repr(r)))
        obs.append(("str", str(r)))
        obs.append(("hash", hash(r)))
        obs.append(("eq", r == 3))
        obs.append(("dir", dir(r)))
        f = r.fn
        obs.append(("call", f(1, (2, [3]), k=4)))
        obs.append(("buffiter", list(buffiter(r, chunk=2, max_chunk=4, factor=2))))
        obs.append(("pickle", pickle.loads(pickle.dumps(r))))
        with r as e:
            obs.append(("enter", e))
        obs.append(("ping", c.ping("pp") is None))
        del f
        obs.append(("end", None))
        box["obs"] = obs
        peer.stop = True

    sch, _, exc = pair.run(main, horizon=1000)
    n = 0
    if exc is not None or sch.outcome != "done":
        viol.append(("conversation-failed:%s" % (type(exc).__name__ if exc else sch.outcome), repr(exc)))
        return 1, viol

    def expect(name, got, want):
        nonlocal n
        n += 1
        if got != want:
            viol.append(("request-layout-differs:%s" % name, "%s: got %r, want %r" % (name, got, want)))

    L = peer.log
    root, fn, it = peer.root, peer.fn, peer.it
    me = (R.L_LOCAL_REF, root)
    T = lambda *xs: (R.L_TUPLE, tuple(xs))     # noqa: E731
    # when every argument is a plain value the whole argument tuple travels as ONE value (label 1)
    want = [
        (3, val(())),
        (16, val((root,))),
        (4, T(me, val("foo"))),
        (6, T(me, val("bar"), val(5))),
        (5, T(me, val("baz"))),
        (8, T(me, val("__getitem__"), val((1,)), val(()))),
        (9, T(me)),
        (10, T(me)),
        (12, T(me)),
        (11, T(me, val(3), val("__eq__"))),
        (13, T(me)),
        (4, T(me, val("fn"))),
    ]
    for i, wnt in enumerate(want):
        expect("#%d:handler=%d" % (i, wnt[0]), L[i] if i < len(L) else None, wnt)
    i = len(want)
    # call(7): args tuple mixes values and a reference (the list is "my object": label 4 with an id_pack)
    h, bx = L[i]
    expect("call(7):handler", h, 7)
    n += 1
    try:
        ok = (bx[0] == R.L_TUPLE and bx[1][0] == (R.L_LOCAL_REF, fn) and bx[1][1][0] == R.L_TUPLE and
              bx[1][1][1][0] == val(1) and bx[1][1][1][1][0] == R.L_TUPLE and bx[1][1][1][1][1][0] == val(2) and
              bx[1][1][1][1][1][1][0] == R.L_REMOTE_REF and bx[1][1][1][1][1][1][1][0] == "builtins.list" and
              bx[1][2] == val((("k", 4),)))
    except Exception:
        ok = False
    if not ok:
        viol.append(("request-layout-differs:call(7)", repr(bx)[:300]))
    i += 1
    expect("iter:callattr(8)", L[i], (8, T(me, val("__iter__"), val(()), val(()))))
    i += 1
    itme = (R.L_LOCAL_REF, it)
    expect("buffiter(17)#1", L[i], (17, T(itme, val(2))))
    expect("buffiter(17)#2", L[i + 1], (17, T(itme, val(4))))
    expect("buffiter(17)#3", L[i + 2], (17, T(itme, val(4))))
    i += 3
    # iterator proxy dropped -> del(15) with its count
    rest = L[i:]
    hs = [h for h, _ in rest]
    n += 1
    if 15 not in hs:
        viol.append(("request-layout-differs:del(15)-missing", repr(hs)))
    for h, bx in rest:
        if h == 15:
            expect("del(15)", bx[1][1], val(1))
        if h == 14:
            expect("pickle(14)", bx, T(me, val(2)) if bx[1][1] == val(2) else bx)
        if h == 19:
            expect("ctxexit(19)", bx, T(me, val(None)))
        if h == 1:
            expect("ping(1)", bx, val(("pp",)))
    for need in (14, 19, 1, 8):
        n += 1
        if need not in hs:
            viol.append(("request-layout-differs:handler-%d-never-sent" % need, repr(hs)))
    obs = dict(box["obs"])
    expect("meaning:getattr", obs["getattr"], "attr:foo")
    expect("meaning:hash", obs["hash"], 4321)
    expect("meaning:buffiter", obs["buffiter"], [0, 1, 2, 3, 4])
    expect("meaning:pickle", obs["pickle"], [1, 2])
    expect("meaning:enter", obs["enter"], "entered")
    expect("meaning:dir", obs["dir"], ["a", "b"])
    return n, viol


def constants():
    """the published numbers, one by one"""
    viol = []
    want = dict(MSG_REQUEST=1, MSG_REPLY=2, MSG_EXCEPTION=3, LABEL_VALUE=1, LABEL_TUPLE=2, LABEL_LOCAL_REF=3, LABEL_REMOTE_REF=4,
                HANDLE_PING=1, HANDLE_CLOSE=2, HANDLE_GETROOT=3, HANDLE_GETATTR=4, HANDLE_DELATTR=5, HANDLE_SETATTR=6,
                HANDLE_CALL=7, HANDLE_CALLATTR=8, HANDLE_REPR=9, HANDLE_STR=10, HANDLE_CMP=11, HANDLE_HASH=12, HANDLE_DIR=13,
                HANDLE_PICKLE=14, HANDLE_DEL=15, HANDLE_INSPECT=16, HANDLE_BUFFITER=17, HANDLE_OLDSLICING=18,
                HANDLE_CTXEXIT=19, HANDLE_INSTANCECHECK=20, EXC_STOP_ITERATION=1, STREAM_CHUNK=64000)
    for k, v in want.items():
        got = getattr(consts, k, None)
        if got != v:
            viol.append(("constant:%s" % k, "%s = %r, published %r" % (k, got, v)))
    if Channel.COMPRESSION_THRESHOLD != 3000 or Channel.COMPRESSION_LEVEL != 1 or Channel.FLUSHER != b"\n" or \
            Channel.FRAME_HEADER.format not in ("!LB", b"!LB"):
        viol.append(("constant:channel", "threshold/level/flusher/header = %r" % ((Channel.COMPRESSION_THRESHOLD,
                     Channel.COMPRESSION_LEVEL, Channel.FLUSHER, Channel.FRAME_HEADER.format),)))
    return len(want) + 1, viol


def replay(rep):
    env.silence_unraisable()
    part = rep.get("part")
    fn = {"values": lambda: check_values(rep.get("tier", "quick"))[:2], "packets": lambda: check_packets()[:2],
          "socket-level": check_socket_level,
          "ref-drives-real": conversation_ref_drives_real, "real-drives-ref": conversation_real_drives_ref,
          "constants": constants}[part]
    a = fn()
    b = fn()
    if [v[0] for v in a[1]] != [v[0] for v in b[1]]:
        print("REPLAY-DIVERGENCE")
        return 2
    print(part, a[1])
    return 1 if a[1] else 0


def main(tier, replay_obj=None):
    if replay_obj is not None:
        return replay(replay_obj)
    env.silence_unraisable()
    res = runner.Result(PID, "exploration", tier,
                        "every grammar value encoded by rpyc and by the independent reference codec (byte equality both ways); "
                        "every packet-size class x 3 content kinds x compression on/off at sender and receiver; scripted conversations "
                        "covering all 20 handler numbers, 3 message kinds and 4 boxing labels in both directions against the reference "
                        "peer; distinct = (type, tag) classes + packet classes + conversation checks")
    n, viol, classes, skipped = check_values(tier)
    res.evaluations += n
    res.distinct_count_extra += classes
    res.parts["values"] = {"values": n, "type_tag_classes": classes, "skipped_lone_surrogates": skipped}
    for sig, text in viol:
        res.violation(sig, text, {"part": "values"})
    n, viol, classes = check_packets()
    res.evaluations += n
    res.distinct_count_extra += classes
    res.parts["packets"] = {"packets": n, "classes": classes, "sizes": list(SIZES)}
    for sig, text in viol:
        res.violation(sig, text, {"part": "packets"})
    n, viol = check_socket_level()
    res.evaluations += n
    res.distinct_count_extra += n
    res.parts["socket-level"] = {"executions": n}
    for sig, text in viol:
        res.violation(sig, text, {"part": "socket-level"})
    for name, fn in (("constants", constants), ("ref-drives-real", conversation_ref_drives_real),
                     ("real-drives-ref", conversation_real_drives_ref)):
        try:
            n, viol = fn()
        except Exception as ex:
            import traceback
            n, viol = 1, [("conversation-crashed:%s:%s" % (name, type(ex).__name__), traceback.format_exc()[-800:])]
        res.evaluations += n
        res.distinct_count_extra += n
        res.parts[name] = {"checks": n}
        for sig, text in viol:
            res.violation(sig, text, {"part": name})
    res.add_sample({"value": "10**255", "reference_encoding_head": R.encode(10 ** 255)[:6].hex()})
    res.add_sample({"packet": "3001 zero bytes, compress on", "reference_header": R.frame(b"\x00" * 3001, True)[:5].hex()})
    res.add_sample({"conversation": "reference peer: request 8 (callattr) root.get_box -> label 4 reference"})
    res.assumptions = ["the reference (DESIGN.md Appendix A) is derived from the pinned 5.0.1 source, where the format is published",
                       "text with lone surrogates has no encoding in the published format and is skipped here (C04 covers it)",
                       "frozenset member order is the sender's choice: compared as multisets",
                       "handler 18 (old slicing) is checked in the reference->real direction only (py3 proxies never emit it)"]
    return res.finish()
