#!/venv/bin/python
"""Generates /verif/MANIFEST.json from the table below (single source of truth) and validates it."""
import glob
import json
import os
import sys

HERE = os.path.dirname(os.path.dirname(os.path.abspath(__file__)))
PY = "/venv/bin/python"

# pid -> (level, technique, text, note, engine, design_ref)
CHECKS = {
    "C12": ("model_checking",
            "stateless DFS over thread schedules of the real Connection._send at source-line granularity with a state cache (2 threads: all interleavings; 3 threads: preemption-bounded), oracle on a recording transport",
            "All interleavings (line granularity inside _send and at every transport write) of 2 sender threads x 1-3 messages, "
            "with and without a re-entrant send from inside the transport write, are explored exhaustively on the real code; "
            "3 threads with a preemption bound; one variant in which a sender's message is dumpable but unencodable (it must be refused in its own thread only). Oracle: every message exactly once, contiguous, per-thread FIFO, queue empty, no deadlock.",
            "C-level atomicity of list.append/pop and the try-lock under the GIL; scheduling points at source lines of _send (opcodes in thorough); sim lock replaces threading.Lock",
            "E1+E2", "DESIGN.md#c12"),
    "C13": ("model_checking",
            "stateless DFS over thread schedules of the real serve()/wait()/dispatch code at source-line granularity with state cache and a partial-order reduction for the environment peer; peer reply order enumerated",
            "2 requesters (unbounded preemptions), 1 requester + BgServingThread (unbounded), 2 requesters + background thread, 3 requesters and 2x2 requests "
            "(preemption-bounded) against a reference-codec peer that answers in every order; oracle: own reply exactly once, every frame dispatched once, "
            "distinct sequence numbers, no deadlock, no lost wake-up.",
            "line-granularity points in the watched functions (quick: the hand-off core; thorough: plus _send/sync_request/async_request/value); GIL atomicity of dict.pop and itertools.count; the peer's steps are atomic and offered only at transport polls (POR, cross-checked in selftest)",
            "E1+E2", "DESIGN.md#c13"),
    "C14": ("model_checking",
            "same explorer and harness as C13 with a virtual-clock stall monitor: the clock may not advance while a ready waiter is blocked",
            "All interleavings of caller(s) and the background serving thread around release/notify/dispatch; the first clock advance with a processed reply and a blocked waiter is the violation. "
            "The pinned tree's stall is a recorded known finding (2 signatures); any other stall signature fails the check.",
            "virtual time advances only when no thread can run; signatures distinguish where the waiter blocks, whether its last readiness read was stale, and who holds the receive lock",
            "E1+E2", "DESIGN.md#c14"),
    "C10": ("model_checking",
            "explicit-state BFS over delivery-controlled event histories replayed on a real Connection pair, canonical-state de-duplication, invariant probes on throw-away rebuilds of every state",
            "All histories over {send k again (alone / in tuples, async or sync), drop a proxy, pass a proxy back, the peer ASKS for an object asynchronously (reference travels in a reply) and collects the result or discards it unread, deliver one frame c->s, deliver one frame s->c, close} "
            "for 1-2 objects with a bounded number of sends are enumerated to closure (the state space is finite); in every reachable state every live proxy is used, "
            "everything is dropped and drained to quiescence, and the connection is closed; two owner-side threads using the shared object table at once (re-send vs release notice, re-send vs re-send) over all schedules with <= 2 (quick) / 3 (thorough) preemptions at line granularity.",
            "frames are processed FIFO per direction; sequence numbers abstracted from the state key; finalizers run at the reference drop (gc disabled); class cache warmed for user classes",
            "E1+E3", "DESIGN.md#c10"),
    "C15": ("model_checking",
            "explicit-state BFS in virtual time over event histories replayed on a real Connection with a scripted reference-codec peer; every observation compared with a reference state machine's set of acceptable outcomes",
            "All histories over {schedule the reply (value/exception) after d, clock tick, add_callback (flat and re-entrant), ready/error/expired, wait, value, serve one frame, "
            "unrelated request with a slow handler, stray reply, set_expiry} for every creation mode (async_request, timed, sync_request) and timeout in {None, unset, -1, 0, 1, 2}; "
            "the search reaches closure (no frontier left) below the depth bound of 9 (quick) / 11 (thorough) events for the bounded alphabet (1 / 2 unrelated requests and expiry changes); "
            "oracle: final outcome, exact virtual time of every return/raise (later only while the waiter runs a handler), callbacks exactly once in order, late reply discarded; synchronous requests for every (timeout, arrival, value/exception) on connections that are 0 / 0.75 / 5 seconds old.",
            "virtual time (computation is instantaneous); ties and 'arrived before expiry but first looked at after it' accept both outcomes; negative timeouts: finality and callbacks only; the expiry is changed only while the result is pending; two threads sharing the connection are C13/C14's subject",
            "E1+E3", "DESIGN.md#c15"),
    "C04": ("exploration",
            "exhaustive enumeration of a value grammar (encode side) and of all short byte strings / tag-class strings / seed mutations (decode side) against the real brine module, with an audit-hook monitor",
            "Every grammar value (all wire-form length classes, nesting, every non-dumpable kind) is checked for dumpable/dump/load agreement with bit-exact comparison; "
            "after every earlier call (each grammar value, successful or refused half-way through a container) 21 probes must still encode to the bytes taken before anything else was encoded (the serializer has no memory); verdicts belong to values, not addresses (a container is judged, freed and one of the same size with the opposite verdict created at the same address, sizes 20-300); "
            "ALL byte strings up to length 2 (quick) or 3 (thorough), all tag-class strings up to length 4/5 and every truncation/substitution of seed encodings are decoded under an audit hook.",
            "values outside the grammar and byte strings longer than the enumerated classes are not covered; the audit hook sees CPython import/exec/compile/open/pickle events",
            "E5", "DESIGN.md#c04"),
    "C19": ("exploration",
            "differential enumeration against an independently written reference codec and reference peer: byte equality for all grammar values and packet classes, scripted conversations over all 20 handlers / 4 labels / 3 message kinds in both directions",
            "The reference (DESIGN.md Appendix A) freezes the published 5.x format; rpyc's encoder/decoder, packet framing and the meaning of every handler number are compared with it for the whole value grammar, "
            "every packet size class x compression setting, and both conversation directions.",
            "the reference is derived from the pinned source (where the format is published); lone-surrogate text (no published encoding) is skipped",
            "E5", "DESIGN.md#c19"),
    "C08": ("model_checking",
            "exhaustive enumeration of request streams (bounded length) replayed on a real client/server Connection pair with a frame ledger at the transport, plus every malformed request of a menu sent by a reference-codec raw peer",
            "All streams of <= 3 (quick) / 4 (thorough) requests over 9 handler outcomes (values, references, exceptions, unencodable results and exception arguments, nested callback, GeneratorExit, a custom BaseException) x {sync, async} with every placement of result collection; ledger oracle: one response per request with its own "
            "sequence number in both directions, handlers exactly once, results reach their own requester, unencodable results surface as exceptions, connection usable afterwards. "
            "Malformed requests (36 shapes x 8 sequence-number shapes, and all ordered pairs) each get exactly one exception response bearing their own sequence number.",
            "deterministic default schedule (thread interleavings are C13's subject); bounded stream length",
            "E1+E3+E5", "DESIGN.md#c08"),
    "C01": ("exploration",
            "exhaustive enumeration of call-tree programs (all tree shapes x node/edge labellings up to a node bound) and of argument/result shape chains, each executed on a real Connection pair and on a single-process twin",
            "Every program with <= 4 (quick) / 5 (thorough) nodes - which peer runs each node, raise/return at each node, sync / caught / async invocation on each edge - and every "
            "(argument shape incl. tuple subclasses, result shape, passing mode, chain depth 1..3) case is run through rpyc and locally; root outcome, ordered invocation log (each node exactly once), callee view and caller objects afterwards must agree.",
            "deterministic default schedule; families A (control) and B (data) are exhaustive within their bounds, their product is not enumerated",
            "E1+E3", "DESIGN.md#c01"),
    "C03": ("model_checking",
            "exhaustive enumeration of the value grammar against the statement's plain-immutable predicate plus explicit-state enumeration of all send/echo/drop/forward histories up to a depth bound on real Connection pairs (1 and 2 hops)",
            "Every grammar value (incl. every subclass / container / callable / module kind and tuples mixing values and references) is sent and classified; references are echoed (must be the original), "
            "re-sent while alive (must be the same proxy) and mutated through; all histories up to depth 3 (quick) / 4 (thorough) over {send sync/async/in tuple/twice, collect, echo, drop, forward over a second hop} "
            "for built-in-class and user-class objects are replayed with an identity oracle after every step; every ordered pair of 35 representative values on one connection in four contexts (alone, beside a reference, as a result, as a result beside a reference): the by-value/by-reference decision must not depend on history; obtain/deliver copies (of proxies and of tuples holding references) are equal but independent.",
            "deterministic default schedule (delivery races are C10's subject); bounded history depth; generator/memoryview left out of part V",
            "E1+E3+E5", "DESIGN.md#c03"),
    "C05": ("fault_enumeration",
            "deviation-bounded exhaustive enumeration of transport answers (short reads/writes, timeouts, EAGAIN on reads and on writes) and enumeration of EOF / hard errors at every byte offset, on the real Channel + SocketStream/PipeStream over scripted endpoints",
            "For every packet-size class (0 .. 200000 around the compression threshold and the I/O chunk size), content kind, sender/receiver compression setting and short packet sequences: every execution with <= 2 (quick) / 3 (thorough) "
            "non-default transport answers at every call index, and a cut (EOF, ECONNRESET, EPIPE, EBADF, EIO) at every byte offset on the read side and after every partial count on the write side.",
            "reliable byte FIFO between the endpoints (sender/receiver interleaving only changes availability, which is what is enumerated); at most two consecutive transient errors per call",
            "E4", "DESIGN.md#c05"),
    "C11": ("fault_enumeration",
            "one transport fault per run at every enumerated byte offset / direction / side / error kind over a family of workloads on real Connections + SocketStreams over simulated sockets, plus schedule exploration of close() racing close()",
            "10 workloads (sync, async, nested callbacks, references both ways, client close, server close, two client threads without time-outs with one parked behind the other, background serving thread, close() with a before_closed hook that talks to the peer, and one whose hook raises); "
            "faults: read side EOF/ECONNRESET after exactly N bytes, write side EPIPE/ECONNRESET/EBADF after N bytes, N over every byte (thorough) or all header bytes, frame edges and every 29th body byte (quick); "
            "oracle after one settle step: both sides closed, disconnect hooks exactly once, tables released, second close harmless, every request ended with its value / EOFError / own time-out, no thread left blocked; between its own operations the client never reports closed before its hook has run and its objects are released. Thorough adds the end of stream arriving while a second thread is on its way to park (3 threads, preemption bound 1).",
            "lenient reading of 'becomes closed' (after one further serve(0)); one fault per run; SimOS socket semantics (conformance-tested against the kernel in selftest)",
            "E1+E4", "DESIGN.md#c11"),
    "C06": ("exploration",
            "exhaustive enumeration of the attribute-policy decision space (128 switch settings x prefixes x name classes x object shapes x operations) as real requests from a raw peer, judged by an independent reference policy; explicit enumeration of connection open/close histories for isolation",
            "Every combination of the seven switches, three prefixes, eight text and six non-text names, four object shapes and get/set/del/call plus the comparison, context-exit and old-slicing routes is sent to a real Connection; "
            "which attribute was touched is read from sentinels and __dict__ deltas. Objects with own hooks, restricted() views and a Service are run under all 128 settings. All open/close histories of <= 3 connections "
            "(default, classic, custom, and classic / custom built from ONE caller-owned dict object) probe every live connection after every step and compare DEFAULT_CONFIG and the caller's dict with snapshots.",
            "reference policy written from the statement; both targets accepted where name and twin both qualify; bytes names may be refused or decoded",
            "E5", "DESIGN.md#c06"),
    "C07": ("model_checking",
            "explicit-state BFS over hostile message histories sent by a reference-codec raw peer (with refuse / ignore / adaptive strategies for nested conversations) to a real default-configuration Connection, with canary, policy, table-membership, pickle, import and state monitors after every message",
            "Per reachable state the whole alphabet is applied: every handler x every id in the peer's pool (harvested, stale, never sent, lent on another connection, forged) x 25 sensitive names x labels 3/4, attribute names sent as forged references "
            "answered adaptively, malformed requests, non-request kinds with arbitrary sequence numbers, 26 crafted exception payloads; histories to depth 3 (quick) / 4 (thorough), states de-duplicated by (ended, table by role, pool roles, proxy cache); hidden-state pass: every ANSWERED request followed by every message sharing its name or target id; references of the peer's own whose type name points into modules the victim has not imported.",
            "dedicated-handler special methods (__dir__, __hash__, __repr__, __str__, __call__, iteration, __instancecheck__) are not canaries; alphabet is a structured menu, not all frames",
            "E3+E5", "DESIGN.md#c07"),
    "C09": ("exploration",
            "exhaustive enumeration of built-in exception classes x argument tuples x sender/receiver switch settings through a real serving Connection, the reference codec and a real requesting Connection; custom-class situations and hostile records with import/constructor canaries",
            "Every BaseException subclass of builtins with 7 generic and class-specific argument tuples is raised in a handler of a real Connection under all 4 sender switch settings; the transmitted record is fed to a real requesting Connection under all 4 receiver settings; "
            "class identity, except-clause behaviour, normalised args, public immutable attributes, traceback/version gating, custom-class gating (already imported / importable / unknown / non-exception attributes) and ~3000 hostile records are checked.",
            "ExceptionGroup/BaseExceptionGroup are recorded known findings; the argument-less StopIteration short form carries no traceback text by the published format",
            "E5", "DESIGN.md#c09"),
    "C20": ("exploration",
            "exhaustive enumeration of small directory trees x file sizes around chunk multiples x chunk sizes x filters x direction over a real classic connection pair on the real filesystem, oracle = filtered recursive byte comparison",
            "All tree shapes of depth <= 2 and fan-out <= 2 with files and empty directories at every position, sizes {0,1,c-1,c,c+1,2c,2c+1}, chunk sizes {1,2,3,7,64000}, five filters, upload and download, single-file and directory roots; file contents pattern / zeros / zero tail / newline traps; transfers onto an existing destination whose files were longer; the same source transferred twice in one process.",
            "deterministic default schedule; filters see base names at every level; per-run temp directory removed at exit",
            "E1+E3", "DESIGN.md#c20"),
    "C18": ("model_checking",
            "explicit-state BFS over register/unregister/query/clock histories replayed on the real UDP registry main loop (simulated UDP layer, virtual clock) against a reference dict model and notification log; exhaustive malformed-datagram menu; TCP registry scenarios on simulated sockets under the scheduler",
            "All histories to depth 6 (quick) / 7 (thorough) over 2 hosts x 2 ports x 3 alias sets (two overlapping case-insensitively, one disjoint), 5 query names and clock advances of T/2, 3T/4 and T+1, de-duplicated by (registrations with relative ages, stale ones merged; log-implied membership); a removal notification never names a live member; "
            "every malformed datagram (grammar values in each field, all 1-byte and a grid of 2-byte strings, all truncations, odd command names) followed by a valid query; all arrival orders of silent / partial / garbage / well-behaved TCP clients.",
            "expiry notifications are compared for consistency (pruning is lazy, at the next query); ties in refresh time in any order",
            "E3+E4+E5", "DESIGN.md#c18"),
    "C17": ("model_checking",
            "explicit-state BFS over client/server event histories on the real threaded, thread-pool, one-shot and forking servers running on a simulated socket layer under the controlled scheduler, with descriptor/table/hook/thread accounting after every event; schedule exploration of connect racing close",
            "All histories up to the depth bound over connect / call / graceful close / abrupt close by <= 3 clients and server.close() (twice) at any point, over TCP and unix sockets, each driven to quiescence; "
            "after close every client sees EOFError promptly, hooks ran once, no descriptor, table entry or server thread is left; a connect racing close() is explored over schedules with <= 2 (quick) / 3 (thorough) preemptions at system-call granularity; "
            "a client leaving (close / drop / reset) racing close(), and a client leaving while a newcomer receives its recycled descriptor number (close / reset, gated or free, 1-2 pool workers), and a client that connects and is gone at once (drop / reset, free or gated on the server's registration), are explored over all schedules with <= 2 (quick) / 3 (thorough) deviations from the default inside the scenario's window at line granularity in the accept/drop/close paths; after close() the server's side must be clean while the remaining clients stay idle.",
            "SimOS models loopback sockets/poll/queue and fork/waitpid/SIGCHLD with per-process descriptor tables at the level rpyc uses them (kernel-conformance selftest against the real kernel, 45 observations); the forking server is explored on the emulated fork (children are logical threads with their own descriptor table; memory is not copied, which is sound here because a child only touches its own connection) and its close() is a recorded known finding (cannot reach the children)",
            "E1+E3+E4", "DESIGN.md#c17"),
    "C16": ("model_checking",
            "enumeration of hostile client scripts x server kinds x authentication x good-client counts on the real threaded, thread-pool and forking servers over a simulated socket layer, plus exhaustive single-deviation schedule exploration (system-call and line granularity in the connection set-up code)",
            "Every hostile script (malformed/garbage/absurd/corrupt-zlib packets, a valid request cut at every byte offset, disconnects and resets, failed and stalled authentication, stalls, bursts, a conversation in which the hostile client forges a reference to the good clients' class and lies about it) is played against ThreadedServer, ThreadPoolServer and ForkingServer with and without an authenticator while 1-2 good clients work; "
            "oracle: good clients' results (echo, stored state, a lent reference, a class of their own called by the server), a NEW client is served afterwards, per-connection service instance/state/references/credentials, identifiers of one connection refused on another. All schedules with one deviation from the default are explored for representative scripts and for two clients authenticating concurrently.",
            "hostile bytes are a structured alphabet; pool sized above the number of never-finishing clients; the forking server runs on the emulated fork (default schedule only); recorded known findings: pool + client silent during authentication, pool drops a newcomer whose descriptor number was just recycled",
            "E1+E4+E5", "DESIGN.md#c16"),
    "C02": ("model_checking",
            "explicit-state BFS over canonical target states x a ~170-operation alphabet per target kind, each (state, operation) applied through a proxy on a real connection pair and directly on a twin; exhaustive buffered-iteration parameter sweep",
            "9 target kinds (list, dict, set, bytearray, deque, list-iterator, generator, binary file, user class with operators/properties/context manager) x 3 configuration modes; states reachable within depth 2 (quick) / 3 (thorough) with containers <= 3 items; "
            "result (value+type or reference role), exception class and canonical post-state must agree with the twin. buffiter: all 1872 (length, chunk, factor, max_chunk) combinations and factor < 1. Same-live-proxy pass: observer / any operation / the same observer again on ONE proxy, every step compared with the twin (a proxy must not answer from memory).",
            "operands are immutable values or target-side objects; restricted modes skip operations the policy itself refuses; `|` on proxies of built-in types without __or__ is a recorded known finding (4 target kinds)",
            "E1+E3", "DESIGN.md#c02"),
}

NOT_APPLICABLE = {}

NOT_YET = "check not built yet in this session (work in progress; see DESIGN.md section 9)"


def main():
    props = [json.loads(l)["id"] for l in open(os.path.join(HERE, "properties.jsonl"))]
    checks = []
    for pid in props:
        if pid not in CHECKS:
            continue
        level, technique, text, note, engine, ref = CHECKS[pid]
        checks.append({
            "property_id": pid,
            "quick_cmd": "%s /verif/run.py %s --tier quick" % (PY, pid),
            "thorough_cmd": "%s /verif/run.py %s --tier thorough" % (PY, pid),
            "evidence_file": "/verif/evidence/%s.json" % pid,
            "replay_cmd_template": "%s /verif/run.py %s --replay {path}" % (PY, pid),
            "engine": engine,
            "level_claimed": {"category": level, "text": text, "design_ref": ref},
            "level_note": note,
            "technique": technique,
        })
    na = []
    for pid in props:
        if pid not in CHECKS:
            na.append({"property_id": pid, "reason": NOT_APPLICABLE.get(pid, NOT_YET)})
    man = {
        "version": 1,
        "setup_cmd": "%s -m compileall -q /verif/mc /verif/checks /verif/run.py && %s /verif/selftest/selftest.py && %s /verif/selftest/kernel_conformance.py" % (PY, PY, PY),
        "hooks": {
            "guard": "RPYC_VERIF",
            "enable": "no source hooks: checks rebind module globals of rpyc (locks, clocks, sockets) from the harness at run time; RPYC_VERIF is unused by /repo",
            "baseline_off_cmd": "cd /repo && /venv/bin/python -m pytest -ra -q -p no:cacheprovider --timeout=900 --continue-on-collection-errors",
            "source_commits": [],
            "add_only": True,
        },
        "engines": [
            {"name": "E1", "path": "/verif/mc/sched.py", "serves_properties": sorted(CHECKS),
             "kind_free_text": "controlled logical threads, virtual clock, sim locks/conditions/streams; every choice recorded and replayable"},
            {"name": "E4", "path": "/verif/mc/fragio.py", "serves_properties": [p for p in ("C05", "C11", "C16", "C17", "C18") if p in CHECKS],
             "kind_free_text": "scripted transport endpoints with deviation-bounded answer enumeration (fragio.py) and the simulated socket/poll layer (simos.py)"},
            {"name": "E5", "path": "/verif/mc/refcodec.py", "serves_properties": [p for p in ("C04", "C19", "C13", "C14", "C15", "C07", "C08", "C16", "C18") if p in CHECKS],
             "kind_free_text": "value grammar (mc/values.py), independent reference codec and scripted raw peer"},
            {"name": "E3", "path": "/verif/mc/bfs.py", "serves_properties": [p for p in ("C10", "C15", "C08", "C02", "C03", "C07", "C17", "C18") if p in CHECKS],
             "kind_free_text": "replay-based explicit-state BFS over event histories on the real code with canonical-state de-duplication"},
            {"name": "E2", "path": "/verif/mc/explore.py", "serves_properties": [p for p in ("C12", "C13", "C14") if p in CHECKS],
             "kind_free_text": "stateless DFS over schedules of the real code at line granularity (sys.monitoring) with preemption bounding and canonical-state cache"},
        ],
        "checks": checks,
        "not_applicable": na,
        "notes": "All checks run the real rpyc code from $VERIF_REPO (default /repo) under the harness; see DESIGN.md.",
    }
    with open(os.path.join(HERE, "MANIFEST.json"), "w") as f:
        json.dump(man, f, indent=1)
    print("MANIFEST.json written: %d checks, %d not_applicable" % (len(checks), len(na)))


if __name__ == "__main__":
    main()
