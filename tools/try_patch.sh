#!/bin/bash
# usage: try_patch.sh <patch.diff> <Cxx> [tier]   -- runs the check against a patched scratch copy of /repo;
# evidence/replays of that run go to a scratch dir (never into /verif/evidence).
p="$1"; c="$2"; t="${3:-quick}"
e=$(mktemp -d /tmp/mutev.XXXXXX)
VERIF_EVIDENCE_DIR="$e" VERIF_REPLAY_DIR="$e" /verif/tools/with_patch.sh "$p" /venv/bin/python /verif/run.py "$c" --tier "$t"
rc=$?
rm -rf "$e"
echo "exit=$rc"
exit $rc
