#!/venv/bin/python
"""Copies verified seeded changes into /verif/seeded/<id>/ (patch.diff, demo.py, notes.md, verify.txt, meta.json) and
records which checks detect them.  Usage: adopt_seeded.py <srcdir> <id> <property> <check,check,...>"""
import json
import os
import re
import shutil
import subprocess
import sys

VERIF = os.path.dirname(os.path.dirname(os.path.abspath(__file__)))

NEEDS = {
    "C01": "an exception crossing the wire twice (raised at level N, not caught at N-1, class-specific catch at N-2): vinegar.dump sends __qualname__ of the local wrapper class",
    "C02": "an instance of a user class received before (or after) its class on the same connection: both share one netref-class cache slot",
    "C03": "a falsy remote object (empty container, __bool__/__len__ false) received again while its first proxy is alive (truthiness test on the proxy cache); rebased onto the tree with the C03 fix",
    "C04": "an integer whose decimal text is exactly 256 characters (1-byte length form overflows)",
    "C05": "sender compresses (payload > 3000 bytes) and receiver was created with compress=False: receiver skips decompression",
    "C06": "a hand-crafted HANDLE_CMP request whose operator name is any attribute: comparison handler bypasses the policy",
    "C07": "attribute NAME sent as a reference to a forged str-subclass object (enum.StrEnum) whose callbacks the attacker answers: isinstance() check trusts the proxy's __class__",
    "C08": "two threads on one connection; the reply is dispatched between the request reaching the wire and the callback being stored (callback registered after _send)",
    "C09": "two connections with different exception switches in one process, permissive one first: process-wide memo of resolved exception classes",
    "C10": "a release notice crossing exactly one fresh reference in flight (decref removes the entry one reference too early)",
    "C11": "two threads share a connection, one parked waiting for the receive lock WITHOUT time-out, EOF hits the lock owner: notify_all no longer in the finally block",
    "C12": "thread A finds the queue empty under the lock and is preempted before release; thread B appends and fails the try-lock (continue -> return)",
    "C13": "same change as C08's (callback registered after _send), found independently",
    "C14": "waiter fails the try-lock, the receiver notifies and dispatches before the waiter reaches Condition.wait (try-lock moved out of the condition's critical section): lost notification",
    "C15": "finite expiry, reply not arriving before it, and at least one unrelated message served during the wait (relative timeout restarted on every serve())",
    "C16": "ThreadedServer with an authenticator; two clients authenticate concurrently and interleave between the shared-dict update and Connection.__init__ (credentials written into the shared protocol_config)",
    "C17": "a client connects exactly while another thread closes the server: the accepted socket is tracked only once the serving thread starts (clients.add moved)",
    "C18": "same name, two servers, the older one refreshes: dict insertion order used instead of sorting by refresh time",
    "C19": "a packet whose on-wire body is exactly 63995 bytes: the trailing newline is folded into an empty remainder write and never sent",
    "C20": "download with chunk_size < 64000 of a file larger than chunk_size (short-read test against STREAM_CHUNK instead of chunk_size)",
    "C01b": "a second message queued while another is inside channel.send (finalizer re-entrancy or two threads): head of queue popped after sending the caller's own data again",
    "C02b": "buffiter with max_chunk < chunk over an iterable longer than chunk + max_chunk (short-read test against the initial chunk)",
    "C03b": "a release notice crossing one fresh reference in flight (decref off by one) - the surviving proxy dangles",
    "C05b": "a transient socket.timeout inside SocketStream.read (errno is None, not ETIMEDOUT): stream closed instead of retried",
    "C08b": "thread B appends and fails the try-lock between thread A's last empty-queue check and its release (send loop drains while holding the lock, no re-check)",
    "C09b": "an exception relayed over a second hop: the local wrapper class lost __module__, so it is sent as ('rpyc.core.vinegar', name)",
    "C10b": "two back-to-back references to an instance of a not-yet-known user class (nested class inspection): the fresh proxy is no longer discarded, so its reference is never handed back (leak)",
    "C11b": "local close() overlapping an EOF met while serving on the same side (second serving thread, or a before_closed hook that fails): early closed flag removed, close runs twice",
    "C12b": "a send started re-entrantly (finalizer) from inside the transport write of another message: RLock lets the nested send write into the middle of the outer packet",
    "C15b": "a callback that registers another callback while callbacks run (or a late registration after a raising callback): callbacks run twice",
    "C17b": "ThreadPoolServer: a departing client's descriptor number is recycled by a newcomer between close and the (now late) poll unregistration",
    "C04b": "a history: a float zero of one sign dumped earlier in the same process, then the zero of the other sign (lru_cache keyed by equality conflates 0.0 and -0.0; serializer becomes stateful)",
    "C06b": "a restricted view built with an explicitly EMPTY write list and a peer writing one of the readable names (`wattrs or attrs`)",
    "C07b": "a hand-crafted HANDLE_CMP request naming an arbitrary attribute of type(obj) as the operator (policy check dropped from the comparison handler)",
    "C13b": "waiter fails the try-lock, receiver releases and notifies before the waiter enters Condition.wait (try-lock taken outside the condition mutex): lost wake-up",
    "C14b": "three threads on one connection: two sleepers on the condition, the reply of the second-queued one arrives; notify() wakes only the first",
    "C16b": "ThreadPoolServer: a client that resets (RST) its connection while still in the accept backlog or right after garbage: getpeername() raises outside the try block and kills the accept loop",
    "C19b": "a short send() answer from the kernel (socket accepts fewer bytes than offered): return value ignored, bytes skipped",
    "C20b": "upload of a file whose LAST chunk is a full chunk of NUL bytes (seek instead of write, no truncate): trailing zeros lost",
    "C01c": "an argument, keyword argument or result whose type is a proper subclass of tuple (namedtuple, user subclass): `issubclass(type(obj), tuple)` in _box flattens it into a plain tuple sent by value",
    "C02c": "comparing a proxy with itself (p == p, p != p) for a target whose __eq__/__ne__ is observable or not reflexive: identity short-circuit in BaseNetref.__eq__/__ne__ answers locally",
    "C03c": "a history: a frozenset/slice with a non-value member sent by reference earlier on the same connection and direction, then a plain frozenset/slice reaching _box directly (bare result, or tuple element next to a reference): per-connection memo keyed by type",
    "C05c": "one packet whose on-wire payload size is k*64000 - d, d in 0..4: chunked write loop runs over the payload length, not header + payload (last bytes never sent)",
    "C08c": "a handler raising a BaseException that is neither Exception, SystemExit nor KeyboardInterrupt (GeneratorExit, asyncio.CancelledError, custom): narrowed except clause in _dispatch_request, no response is sent and the connection dies",
    "C10c": "an object sent by reference in the REPLY to an asynchronous request whose AsyncResult is dropped without reading .value: reply unboxed lazily, no proxy -> no release notice -> owner keeps the object",
    "C11c": "local close() while the peer is not serving (hangs for the sync timeout) or both sides closing at once (each serves the other's close inside its own close: _cleanup runs twice, AttributeError): close notification made synchronous",
    "C13c": "two threads sending on one connection, one preemption inside _send between the last emptiness test and release() (queue drained under one lock acquisition, no re-check): same mechanism as C08b, found independently",
    "C15c": "two threads share a connection; the receiver's release+notify lands between the waiter's failed try-lock and Condition.wait (try-lock moved outside the condition): same mechanism as C13b, found independently; the waiter sleeps until its expiry although the reply arrived",
    "C16c": "ThreadPoolServer: a client that resets its connection (poll reports error/hang-up, polling thread drops it) while a newcomer is accepted: _drop_connection closes the connection BEFORE removing the fd_to_conn entry, the late pop removes the newcomer's entry",
    "C17c": "a tracked client whose socket is already closed (its serving thread is between close and clients.discard) or reset when Server.close() runs: one try around the whole loop, the first failing shutdown() skips every later client",
    "C18c": "the same (host, port) registering twice with different alias lists, then unregistering: per-server alias index overwritten instead of merged, unregister removes only the last list",
    "C01d": "history on one connection: an INSTANCE of a user class is unboxed first, later the CLASS itself arrives as a callable and is called: netref class cache keyed without the instance/class distinction, the class proxy is not callable",
    "C03d": "two threads on the OWNER side: one boxes X again (RefCountingColl.add looks the slot up before taking the lock) while the other serves the peer's release of X's last proxy: the new reference points at a dropped slot",
    "C04d": "a history: an encode refused half-way through a container (unserializable element inside tuple/frozenset/slice), then ANY good value: recycled chunk list still holds the partial output (stale prefix)",
    "C06d": "two connections in one process with different exposed_prefix settings asking for the same bare name: process-wide cache of prefixed twin names keyed by the bare name only",
    "C07d": "an answered read (getattr/callattr) of a name on an object, then setattr/delattr of the same name on an object of that class: policy decision memoised per (type, name) without the permission",
    "C08d": "a request whose handler first causes another request to be dispatched on the same side (nested callback) and THEN fails: exception responses carry the connection-wide 'last request' number instead of their own",
    "C09d": "a built-in exception carrying C-level data attributes (OSError.errno/strerror/filename, SystemExit.code, ...): `hasattr(typ, name)` filter in vinegar.dump drops them",
    "C10d": "any lend, then every proxy dropped and the release processed: a one-entry memo of the last table lookup keeps a strong reference to the object (the table's keys and counts look right; only liveness shows it)",
    "C12d": "two or more messages queued while another sender holds the send lock: queue drained from the end senders append to (LIFO), one thread's messages leave in reversed order",
    "C14d": "three threads on one connection: receiver R holds the lock, W parks for its reply, a third thread's short serve() times out and clears the shared 'somebody is parked' flag; R then skips notify_all and W sleeps on",
    "C19d": "the integer 160 anywhere in a message (a by-value 160, or the 161st request whose sequence number is 160): immediate-int table made inclusive of 0xa0, 160 is sent as the single byte 0xf0",
    "C20d": "upload of a directory with a filter rejecting a sub-directory's name: os.walk's dirs list rebound instead of pruned in place, rejected directories are uploaded with their contents",
    "C02e": "hash(proxy), then a change of the target that alters its hash, then hash(proxy) again on the SAME live proxy (directly or through a local dict/set): first HANDLE_HASH answer cached in the proxy",
    "C05e": "PipeStream: one read(count) needing two or more os.read calls while bytes of the next frame are already in the pipe (fragmented arrival, or a frame > 64000 bytes with another behind it): chunk size hoisted out of the loop, later reads over-read",
    "C06e": "one non-empty caller-owned config dict used for two or more connections in a process, one of them classic-mode: Connection adopts the dict instead of copying it, SlaveService's blanket permissions leak to the others",
    "C09e": "the sender's two disclosure switches differing (include_local_traceback != include_local_version) and any exception raised while serving: the two switches passed to vinegar.dump in swapped positions",
    "C11e": "a transport write failure while sending a request outside serve(), then reading conn.closed (or the idiom `if not conn.closed: conn.close()`): `closed` also true when only the channel is closed - reported closed with the hook not run and objects still held",
    "C12e": "2 threads, A sends two messages, B one: A's second _send wins an 'uncontended fast path' try-lock in the two-line window between B's release and re-acquire while A's first message is still queued: per-thread order broken",
    "C13e": "two threads requesting on one connection with one preemption inside _get_seq_id between read and store (plain int instead of itertools.count): same sequence number twice, callbacks overwritten, replies crossed / lost",
    "C14e": "two threads: a waiter parked behind the receiver is notified after its reply was dispatched; instead of returning to look at its result it re-contends for the receive lock (while-loop around the try-lock) and polls the transport for its whole remaining expiry",
    "C15e": "elapsed time between creating the connection and issuing a synchronous request: the configured timeout cached as ONE absolute deadline at connection creation",
    "C16e": "connection A makes the server unbox a reference to a class and lies in its HANDLE_INSPECT answer; a later connection B passing the class with the same id_pack gets the poisoned proxy type: netref class cache made process-wide and never cleared",
    "C17e": "ThreadPoolServer, a client that resets right after the server started tracking it: descriptor registered with the poller BEFORE the fd_to_conn entry exists; the poller's drop finds nothing, the accept thread then inserts an entry nobody will ever remove",
    "C18e": "the same (host, port) registered under two names at different times, the clock such that one entry is stale and the other fresh, then a query for the stale name: pruning calls cmd_unregister (all names) instead of removing that one entry",
    "C01f": "a call with two or more keyword arguments not in alphabetical order, to a callee that looks at the ORDER of its **kwargs: keywords packed as tuple(sorted(kwargs.items()))",
    "C03f": "an object already lent (live proxy at the peer) sent again inside a message that then fails to encode (next to 10**5000): the error path removes the table entry outright instead of taking back one count (rebased: same code as the tree's fix 5b80f55 with discard instead of decref)",
    "C04f": "a tuple/frozenset of >= 32 items judged by dumpable() right after a freed container of the same size and the opposite verdict (CPython reuses the address): verdict memoised by id(obj)",
    "C05f": "PipeStream with a non-blocking write descriptor: a write that hits EAGAIN after at least one successful os.write in the same call - the retry path re-applies the previous count and drops unsent bytes while reporting success",
    "C07f": "a reference of the peer's own whose type name (id_pack[0]) is 'module.anything' for a module not yet imported, with the peer answering the follow-up HANDLE_INSPECT: pkgutil.resolve_name imports the module",
    "C08f": "two sending threads on one connection, one message dumpable-but-unencodable (10**5000): packets are queued raw and encoded by whichever thread drains the queue - the failure is raised in the wrong thread and the packet is lost (rebased onto 5b80f55)",
    "C09f": "an exception with at least one argument that is not brine-dumpable (list, dict, object, nested): an extra ('args', repr) attribute pair is sent and load() re-sets exc.args from it - the repr string explodes into characters",
    "C10f": "the same by-reference object twice in one tuple, f(x, x): boxed once (memo by id) so the owner counts 1 while the peer's proxy counts 2; after the peer's release of 2 crossing a fresh send, the entry is dropped too early",
    "C11f": "two threads share a connection; the stream ends for the lock owner between the other thread's failed try-lock and its Condition.wait (try-lock moved outside the condition): the second thread parks forever on a closed connection (C13b's mechanism, met through EOF)",
    "C13f": "thread A dispatching the reply to thread B's request is preempted after `_is_ready = True` and before `_obj` is stored: B's request completes with None",
    "C19f": "two numerically equal values of different type (7 and 7.0, 0.0 and -0.0) dumped in one process: module-level memo of encoded leaves keyed by the value (equality) - whichever came first decides the bytes",
    "C20f": "download onto an EXISTING local file that is longer than the remote one: os.open without O_TRUNC, the stale tail stays",
    "C02g": "an operation on the target whose RESULT is an instance of a tuple subclass (namedtuple, user class): `issubclass(type(obj), tuple)` in _box sends it by value as a plain tuple (same mechanism as C01c, met through results)",
    "C03g": "classic.obtain() of a value that arrived as a local tuple with references inside (e.g. conn.eval('([1,2], 7, {..})')): returned unchanged because the tuple itself is not a proxy - the 'copy' still is the owner's objects",
    "C06g": "allow_all_attrs on and allow_exposed_attrs off with the operation's own switch off (setattr/delattr/getattr disabled): a 'classic-mode fast path' returns the name before the operation switch is checked",
    "C10g": "close() whose goodbye step raises something other than EOFError with close_catchall off (a before_closed hook that fails): `_closed` set before the try and cleanup no longer in a finally - the connection reports closed and never cleans up",
    "C12g": "two threads, one message each: thread B appends between the lock holder's snapshot `pending = list(queue)` and its `del queue[:]`: B's message is deleted without ever being written",
    "C14g": "background receiver B notifies under the condition BEFORE releasing the receive lock (the two hand-off statements swapped); caller W fails the try-lock between them and parks after the only notification",
    "C15g": "a finite expiry, a reply accepted before it, and a wait()/value query after the expiry instant: wait() loops on the timeout only and raises although the result is ready",
    "C16g": "ThreadedServer with an authenticator: a client that sends part of its credentials and stays silent - authentication moved from the per-client thread into the accept loop, later clients are never accepted",
    "C17g": "Server.close() with an idle connected client that never touches its end again: shutdown(SHUT_WR) without close() - the serving thread sleeps on, hooks never run, the descriptor stays",
    "C18g": "a (host, port) registered under two or more names, then UNREGISTER: any() stops at the first name that held it, the other names keep listing it",
    "C19g": "a str containing an unpaired surrogate anywhere in a message: error handler changed from surrogatepass to surrogateescape - U+DC80..DCFF go out as raw bytes, other lone surrogates make dump raise, conforming bytes decode to other text",
    "C20g": "the same remote directory downloaded a second time in one process: a 'visited' set used as a mutable default argument makes the second download return at once",
    "C01h": "a callee raising an exception whose data lives outside args and outside the instance dict (OSError.errno/filename, StopIteration.value, SystemExit.code), caught further up and read there: vinegar.dump collects attributes from val.__dict__ only",
    "C04h": "a frozenset with two or more members that have no total order (mixed types, complex numbers, None/Ellipsis, tuples tying up to an unorderable position): members sorted 'for reproducible bytes' - dumpable() says yes, dump() raises TypeError",
    "C05h": "one packet whose on-wire payload is exactly MAX_IO_CHUNK - 5 = 63995 bytes: remainder write and frame terminator put under the same `if remainder:` - the terminator is never sent (variant of the round-1 C19 change, in the large-frame branch)",
    "C06h": "a name the configuration does not allow, on an object that has BOTH `name` and `exposed_name` and no hooks of its own: the twin now unlocks the plain attribute itself instead of being what is accessed",
    "C07h": "one request naming a DENIED attribute whose lookup is observable (property with side effects, __getattr__ hook): a 'friendlier diagnostics' hasattr(obj, name) on the refusal path runs the getter",
    "C08h": "two threads: thread 1's request passes boxing but fails to encode (10**5000) after thread 2 has allocated the next sequence number: the failed number is 'handed back' by rewinding the connection-wide counter, the outstanding number is issued twice",
    "C09h": "two failing requests served by two threads of the same side at once: the exception triple is parked in a per-connection attribute between the except clause and the send - request 1 is answered with request 2's exception",
    "C11h": "a thread waits (no time-out) in serve()->poll() on a SocketStream connection while another thread of the same side closes it and the peer is busy: SocketStream.close() no longer calls shutdown(), and a bare close(fd) does not wake the poll",
    "C13h": "two threads, no background server: the lock holder's poll times out with no data and leaves serve() WITHOUT notify_all (new 'wake_waiters' flag); the thread parked behind it sleeps through its reply until its own expiry",
    "C14h": "a second thread that looks after the connection with poll()/poll_all()/.ready receives the waiter's reply: poll() got its own fast path that omits notify_all, the waiter parked in serve() is not woken",
    "C16h": "ThreadPoolServer: a well-framed packet with bad content (corrupt zlib, garbage payload): the worker loop's catch-all narrowed to socket/select/EOF errors, each such packet kills one worker thread for good (visible at once with a one-worker pool)",
    "C17h": "ForkingServer with two or more clients leaving at about the same time: the SIGCHLD handler's reap-all loop became a single waitpid - SIGCHLD is not queued, the other children stay zombies",
    "C02i": "any comparison whose TARGET is a class object (builtin or user class): the comparison handler fetches the method from the object instead of from type(obj), finding the instances' unbound method - TypeError instead of a bool",
    "C03i": "one transfer of an instance of any tuple subclass (isinstance instead of the exact-type test in _box; third independent appearance of this mechanism after C01c and C02g)",
    "C04i": "an unserializable value as a direct member of a tuple/frozenset with 5 or more members: per-member writer looked up in the registry directly, refusal is KeyError instead of TypeError",
    "C05i": "sender compresses, packet > 3000 bytes that zlib level 1 cannot shrink: header flag says 'not compressed' but the body is the deflate output",
    "C10i": "an instance of a class the peer does not know yet, arriving twice so that the second arrival is processed inside the first one's class-inspection wait: the peer counts one reference too many and later releases one too many (cold class cache + replies to asynchronous requests)",
    "C12i": "two threads plus a re-entrant send inside the SECOND packet's write: blocking acquire with an owner marker, release() before the marker is cleared - the late clear wipes the next holder's marker and its nested send blocks on its own lock",
    "C13i": "send loop draining under one lock acquisition without re-check (third independent appearance of C08b's mechanism)",
    "C15i": "a timeout of exactly 0 passed to async_request (`if timeout:` instead of `is not None`): the result never expires",
    "C16i": "ThreadedServer: a client that resets before a Connection exists - shutdown() raises ENOTCONN inside the finally block, close() and clients.discard() are skipped: one descriptor and one table entry leak per such client (until accept dies at the fd limit)",
    "C18i": "one REGISTER carrying two or more names new to the registry: dict.fromkeys gives them ONE shared server table",
    "C19i": "a received packet whose payload ends in 0x0a: terminator removed with rstrip, payload newlines are eaten with it",
    "C20i": "download from a peer whose filesystem is not the local one: the 'is it a regular file' test on the REMOTE path runs on the local side; files are skipped silently",
    "C01j": "receiver with instantiate_custom_exceptions on, two exception classes with the same bare name in different modules arriving one after the other: cache of rebuilt classes keyed by __name__ - the second is rebuilt as a subclass of the first",
    "C06j": "an object whose _rpyc_getattr/_rpyc_setattr/_rpyc_delattr hook is INHERITED (every Service subclass): hooks looked up in the exact class's __dict__ only, the connection's configuration decides instead",
    "C07j": "one non-empty caller-owned config dict handed to a classic-mode connection and to another connection: ChainMap(config, DEFAULT_CONFIG) sends the classic service's blanket permissions into the caller's dict (same family as C06e)",
    "C08j": "an asynchronous request whose handle is dropped after add_callback (or whose callback was given to the connection directly): pending callbacks held in a WeakValueDictionary - the reply finds nothing and is discarded",
    "C09j": "StopIteration whose first argument is falsy (a generator returning 0 / '' / False): the bare-StopIteration short form chosen by `not value` instead of `not args`",
    "C11j": "PipeStream on a poll(2) platform, the peer's end disappearing while this side is idle: Stream.poll ignores wake-ups that carry only hang-up/error flags - the end of the stream is never met, the side never closes",
    "C14j": "callback registered after the request is on the wire (fourth independent appearance of the round-1 C08/C13 mechanism)",
    "C17j": "ThreadedServer, a client that resets while in the backlog: getpeername() hoisted out of the try/finally - the serving thread dies before the cleanup, socket and table entry stay",
    "C03k": "two DISTINCT classes with the same qualified name (class factory, namedtuple() called twice) lent on one connection while the first proxy is alive: proxy cache keyed by (name, instance id) - both classes share one entry",
    "C10k": "RefCountingColl.add looking the slot up outside the lock (second independent appearance of C03d's mechanism)",
    "C12k": "the lock holder only PEEKS the head of the queue and pops it after release(): a second sender takes the lock before the pop, transmits the same head again; the double pop raises or removes an unsent message",
    "C13k": "the received frame kept in a shared connection attribute instead of a local: another thread's receive overwrites the slot between release() and dispatch - one frame is lost, another dispatched twice",
    "C15k": "two or more callbacks registered before the reply: callbacks drained with pop() - they run once each but in REVERSE registration order",
    "C16k": "rpyc.lib.compat.PollingPoll: the event mask accumulates over the whole poll() batch - a descriptor listed after a reset connection inherits its error/hang-up flags, ThreadPoolServer drops that (healthy) client",
    "C18k": "a request with correct magic and a known command whose args slot has no length (5, None): len(args) in a new debug line outside any try ends the serving loop",
    "C20k": "download with a filter rejecting two entries adjacent in listing order: names pruned with remove() while iterating - the entry after each rejected one is never shown to the filter",
    "C01l": "a callee or callback raising a BaseException that is not an Exception (SystemExit, GeneratorExit): bare except in _dispatch_request narrowed to `except Exception` (C08c's family, met through call trees)",
    "C02l": "public-attribute mode, a target that has both X and exposed_X: the exposed twin always wins, reads / writes / calls of X are redirected to exposed_X",
    "C04l": "a complex value with a -0.0 component or an inf/NaN imaginary part: decoder rebuilds it as real + imag*1j instead of complex(real, imag)",
    "C05l": "SocketStream.read: an orderly EOF strictly inside a frame returns the short data instead of raising EOFError - a shortened packet is delivered",
    "C06l": "allow_setattr and allow_delattr differing: the delete handler checks the WRITE switch",
    "C19l": "a packet > 3000 bytes that zlib cannot shrink: raw payload kept but the 'compressed' flag stays set",
    "C18b": "register, advance the clock, re-register, advance: setdefault never refreshes the time stamp, live server pruned / wrong order",
}


def confirmed(dst):
    ver = open(os.path.join(dst, "verify.txt")).read() if os.path.exists(os.path.join(dst, "verify.txt")) else ""
    ok = ("demo_pristine_exit: 0" in ver and re.search(r"demo_patched_exit: [1-9]", ver) and "suite_baseline_passing: 57 of 57" in ver)
    applies = subprocess.run(["git", "-C", "/repo", "apply", "--check", os.path.join(dst, "patch.diff")]).returncode == 0
    head = subprocess.run(["git", "-C", "/repo", "rev-parse", "--short", "HEAD"], capture_output=True, text=True).stdout.strip()
    return ver, bool(ok), applies, {
        "patch_applies_to_repo_head": applies, "repo_head": head,
        "verified_against_repo_head": (re.search(r"repo_head: (\S+)", ver).group(1) if re.search(r"repo_head: (\S+)", ver) else "an earlier HEAD (see date)"),
        "demo_passes_on_pristine_fails_on_patched": bool(ok),
        "repository_tests_still_pass_with_change": "57 of 57 baseline tests" if "57 of 57" in ver else "see verify.txt",
        "verified_on": (re.search(r"date: (.*)", ver).group(1) if re.search(r"date: (.*)", ver) else None),
        "how": "tools/verify_seeded.sh (scratch copies of /repo HEAD; demo.py on both; pytest with --ignore=tests/test_gdb.py under flock)"}


def refresh_all():
    """re-read every verify.txt (after a final verification pass against the final /repo HEAD)"""
    import glob
    bad = []
    for f in sorted(glob.glob(os.path.join(VERIF, "seeded", "*", "meta.json"))):
        dst = os.path.dirname(f)
        m = json.load(open(f))
        ver, ok, applies, conf = confirmed(dst)
        m["confirmed"] = conf
        json.dump(m, open(f, "w"), indent=1)
        if not (ok and applies):
            bad.append(m["id"])
    print("refreshed; not fully confirmed:", bad)


def main():
    if sys.argv[1] == "--refresh-confirmed":
        return refresh_all()
    src, sid, prop, checks = sys.argv[1], sys.argv[2], sys.argv[3], sys.argv[4].split(",")
    dst = os.path.join(VERIF, "seeded", sid)
    os.makedirs(dst, exist_ok=True)
    for f in ("patch.diff", "demo.py", "notes.md", "verify.txt"):
        if os.path.exists(os.path.join(src, f)) and os.path.abspath(src) != os.path.abspath(dst):
            shutil.copy(os.path.join(src, f), os.path.join(dst, f))
    ver, ok, applies, conf = confirmed(dst)
    detection = {}
    for c in checks:
        p = subprocess.run([os.path.join(VERIF, "tools", "try_patch.sh"), os.path.join(dst, "patch.diff"), c], capture_output=True, text=True)
        sigs = re.findall(r"violation detail: (\S+)", p.stdout)
        detection[c] = {"exit": p.returncode, "signatures": sorted(set(sigs))[:6]}
    meta = {
        "id": sid,
        "property_broken": prop,
        "origin": "fresh sub-agent given only the property text and a scratch worktree" + (
            " (round %d, asked for a mechanism different from the earlier ones)" % (" bcdefghijklmn".index(sid[3]) + 1) if len(sid) > 3 else " (round 1)"),
        "needs_to_manifest": NEEDS.get(sid, ""),
        "confirmed": conf,
        "detected_by": detection,
    }
    with open(os.path.join(dst, "meta.json"), "w") as f:
        json.dump(meta, f, indent=1)
    print(sid, "ok" if ok else "VERIFY-INCOMPLETE", "applies" if applies else "NO-APPLY",
          {c: (d["exit"], d["signatures"][:2]) for c, d in detection.items()})


if __name__ == "__main__":
    main()
