#!/bin/bash
# usage: verify_seeded.sh <dir with patch.diff and demo.py>  -> writes <dir>/verify.txt
# confirms: patch applies to pristine HEAD; demo passes on pristine and fails on patched; repository test suite
# (stable baseline tests) still passes with the patch.
d="$(realpath "$1")"
out="$d/verify.txt"
w=$(mktemp -d /tmp/vs.XXXXXX)
trap 'rm -rf "$w"' EXIT
mkdir -p "$w/pristine" "$w/patched"
git -C /repo archive HEAD | tar -x -C "$w/pristine"
git -C /repo archive HEAD | tar -x -C "$w/patched"
{
echo "date: $(date -u)"
echo "repo_head: $(git -C /repo rev-parse --short HEAD)"
(cd "$w/patched" && git init -q . 2>/dev/null; git apply "$d/patch.diff") && echo "patch: applies" || { echo "patch: DOES NOT APPLY"; }
(cd "$w/pristine" && PYTHONPATH="$w/pristine" timeout 300 /venv/bin/python "$d/demo.py" >/dev/null 2>&1); echo "demo_pristine_exit: $?"
(cd "$w/patched" && PYTHONPATH="$w/patched" timeout 300 /venv/bin/python "$d/demo.py" >/dev/null 2>&1); echo "demo_patched_exit: $?"
(cd "$w/patched" && flock /tmp/rpyc_tests.lock env PYTHONPATH="$w/patched" timeout 1200 /venv/bin/python -m pytest -q -p no:cacheprovider --timeout=900 --continue-on-collection-errors --ignore=tests/test_gdb.py tests --junitxml="$w/j.xml" >/dev/null 2>&1)
/venv/bin/python - "$w/j.xml" <<'PY'
import sys, json, xml.etree.ElementTree as ET
base=json.load(open('/root/.vp/BASELINE.json'))['stable_pass']
t=ET.parse(sys.argv[1]).getroot()
res={}
for tc in t.iter('testcase'):
    name=tc.get('classname')+'::'+tc.get('name')
    bad=[c.tag for c in tc if c.tag in('failure','error','skipped')]
    res[name]='fail' if bad else 'pass'
missing=[b for b in base if res.get(b)!='pass']
print("suite_baseline_passing: %d of %d"%(len(base)-len(missing),len(base)))
print("suite_baseline_broken:", missing)
PY
} > "$out" 2>&1
cat "$out"
