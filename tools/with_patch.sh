#!/bin/bash
# usage: with_patch.sh <patch.diff> <command...>
# copies /repo (tracked files) to a scratch dir outside /repo and /verif, applies the patch, runs the
# command with VERIF_REPO pointing at the copy, removes the copy.
set -u
patch="$(realpath "$1")"; shift
d=$(mktemp -d /tmp/mut.XXXXXX)
trap 'rm -rf "$d"' EXIT
git -C /repo archive HEAD | tar -x -C "$d"
# include uncommitted working tree changes of /repo too
(cd /repo && git diff HEAD) | (cd "$d" && patch -p1 -s) 2>/dev/null
(cd "$d" && patch -p1 -s < "$patch") || { echo "patch failed"; exit 3; }
VERIF_REPO="$d" "$@"
rc=$?
exit $rc
