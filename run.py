#!/venv/bin/python
"""Single entry point:  run.py <Cxx> --tier quick|thorough [--replay FILE]"""
import argparse
import glob
import importlib
import json
import os
import sys

HERE = os.path.dirname(os.path.abspath(__file__))
sys.path.insert(0, HERE)
os.environ.setdefault("PYTHONHASHSEED", "0")
sys.dont_write_bytecode = False


def main():
    ap = argparse.ArgumentParser()
    ap.add_argument("prop")
    ap.add_argument("--tier", default=os.environ.get("VERIF_TIER", "quick"), choices=["quick", "thorough"])
    ap.add_argument("--replay", default=None)
    a = ap.parse_args()
    pid = a.prop.upper()
    mods = glob.glob(os.path.join(HERE, "checks", pid.lower() + "_*.py"))
    if not mods:
        print("no check for", pid)
        return 2
    name = "checks." + os.path.basename(mods[0])[:-3]
    rep = None
    if a.replay:
        with open(a.replay) as f:
            rep = json.load(f)["replay"]
    try:
        mod = importlib.import_module(name)
        rc = mod.main(a.tier, rep)
    except BaseException as ex:      # noqa
        # the check itself fell over (on a changed tree: the library failed in a way no oracle anticipated).  That is a
        # failed check, reported through the interface (exit 1 + VIOLATION line) with the traceback as the artefact.
        import traceback
        tb = traceback.format_exc()
        sys.stderr.write(tb)
        d = os.environ.get("VERIF_REPLAY_DIR", os.path.join(HERE, "replays"))
        os.makedirs(d, exist_ok=True)
        path = os.path.join(d, "%s-check-crashed.json" % pid)
        with open(path, "w") as f:
            json.dump({"property": pid, "signature": "check-crashed:%s" % type(ex).__name__, "text": tb[-4000:], "replay": None,
                       "tier": a.tier}, f, indent=1)
        print("violation detail: check-crashed:%s :: %s" % (type(ex).__name__, tb.strip().splitlines()[-1][:300]))
        print("VIOLATION property=%s replay=%s" % (pid, path))
        rc = 1
    sys.stdout.flush()
    return rc


if __name__ == "__main__":
    rc = main()
    sys.stdout.flush()
    sys.stderr.flush()
    os._exit(rc)
