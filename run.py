#!/venv/bin/python
"""Single entry point:  run.py <Cxx> --tier quick|thorough [--replay FILE]"""
import argparse
import glob
import importlib
import json
import os
import sys

HERE = os.path.dirname(os.path.abspath(__file__))
sys.path.insert(0, HERE)
os.environ.setdefault("PYTHONHASHSEED", "0")
sys.dont_write_bytecode = False


def main():
    ap = argparse.ArgumentParser()
    ap.add_argument("prop")
    ap.add_argument("--tier", default=os.environ.get("VERIF_TIER", "quick"), choices=["quick", "thorough"])
    ap.add_argument("--replay", default=None)
    a = ap.parse_args()
    pid = a.prop.upper()
    mods = glob.glob(os.path.join(HERE, "checks", pid.lower() + "_*.py"))
    if not mods:
        print("no check for", pid)
        return 2
    name = "checks." + os.path.basename(mods[0])[:-3]
    mod = importlib.import_module(name)
    rep = None
    if a.replay:
        with open(a.replay) as f:
            rep = json.load(f)["replay"]
    rc = mod.main(a.tier, rep)
    sys.stdout.flush()
    return rc


if __name__ == "__main__":
    rc = main()
    sys.stdout.flush()
    sys.stderr.flush()
    os._exit(rc)
